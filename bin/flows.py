"""Per-property decision procedures (DESIGN.md section 3), expressed as flows:
   V  trace validation   : Rust driver records events on the real library -> TLC validates them with spec/Trace.tla
   R  replay             : TLC enumerates transitions of a symbolic machine -> the driver executes and abstracts them
   B  Level-B model check: TLC checks a transcription of the code's algorithm exhaustively at small scale
"""
import os, sys, json, time, shutil, glob, re
from vlib import *   # noqa
import concurrent.futures as cf

ASSUME_COMMON = [
    "TLC/SANY and the CommunityModules Json/IOUtils readers are correct",
    "java.math.BigInteger behind the BigNat primitives (cross-checked against the pure TLA+ definitions by MC_BigNat)",
    "the Rust driver records inputs and outputs faithfully (it computes no expectation itself)",
    "exhaustiveness only at small scope; at 256 bits the check is structured sampling against the executable specification",
]


class Ctx:
    def __init__(self, pid, tier, seed):
        self.pid, self.tier, self.seed = pid, tier, seed
        self.t0 = time.time()
        self.states = 0
        self.transitions = 0
        self.traces = 0
        self.samples = []
        self.violations = []      # dicts: flow, suite, op, event, why, params
        self.models = {}
        self.flows = []
        self.classes = {}
        self.dir = f"{BUILD}/tr/{pid}"
        shutil.rmtree(self.dir, ignore_errors=True)
        os.makedirs(self.dir, exist_ok=True)

    def quick(self):
        return self.tier == "quick"


def pool_file():
    return ensure_gen("pool.json", "GenPool")


# ------------------------------------------------------------------------------------------------ flow: trace validation
def flow_trace(ctx, suite, nq, nt, profile="release", chunk=4000, extra=(), label=None, timeout=None, keep=False, need=None):
    n = nq if ctx.quick() else nt
    label = label or suite
    out = f"{ctx.dir}/{label}-{profile}.ndjson"
    ex = list(extra)
    if "--pool" not in ex:
        ex += ["--pool", pool_file()]
    t0 = time.time()
    hang = run_driver(profile, suite, out, ctx.seed, n, ctx.tier, ex)
    params = {"suite": suite, "profile": profile, "seed": ctx.seed, "n": n, "tier": ctx.tier, "extra": [x for x in extra]}
    if hang:
        for h in hang:
            ctx.violations.append({"flow": "V", "suite": suite, "op": h.get("op"), "event": h, "why": ("driver-abort" if h.get("op") == "driver-abort" else "hang"), "params": params})
    parts, nrec = split_trace(out, chunk)
    to = timeout or (600 if ctx.quick() else 3600)
    res = validate_traces(parts, tag=ctx.pid, timeout=to)
    ctx.states += res["distinct"]
    ctx.transitions += res["consumed"]
    ctx.traces += res["consumed"]
    for c, k in res["cov"].items():
        if k:
            ctx.classes[c] = ctx.classes.get(c, 0) + k
    with open(out) as f:
        for i, line in enumerate(f):
            if i < 2:
                ctx.samples.append(json.loads(line))
    opcount = {}
    with open(out) as f:
        for line in f:
            m = re.search(r'"op":"([^"]+)"', line)
            if m:
                opcount[m.group(1)] = opcount.get(m.group(1), 0) + 1
    # vacuity guard: the fixed preludes of a suite must not crowd out its randomised rounds (and vice versa)
    if not hang:
        for opn, k in (need or {}).items():
            if opcount.get(opn, 0) < k:
                raise ToolError(f"vacuous run: suite {suite} ({label}) produced {opcount.get(opn, 0)} '{opn}' events, at least {k} required")
    for b in res["bad"]:
        ev = fetch_event(b["file"], b["seq"])
        ctx.violations.append({"flow": "V", "suite": suite, "op": b["op"], "event": ev, "why": b["why"], "params": params})
    ctx.flows.append({"flow": "V", "suite": suite, "profile": profile, "records": nrec, "validated": res["consumed"],
                      "mismatches": len(res["bad"]), "ops": opcount, "wall_s": round(time.time() - t0, 1)})
    if not keep:
        for p in parts:
            if p != out:
                os.remove(p)
    return out


def flow_programs(ctx, suite, parts_q, parts_t, n_q, n_t, profile="release", extra=(), label=None, timeout=None):
    """Stateful traces: `parts` independent programs of n events each, one trace file and one TLC run per program."""
    parts = parts_q if ctx.quick() else parts_t
    n = n_q if ctx.quick() else n_t
    label = label or suite
    t0 = time.time()
    files = []
    params = {"suite": suite, "profile": profile, "seed": ctx.seed, "n": n, "tier": ctx.tier, "extra": list(extra), "parts": parts}

    def gen(i):
        out = f"{ctx.dir}/{label}-{profile}-p{i}.ndjson"
        hang = run_driver(profile, suite, out, ctx.seed, n, ctx.tier, list(extra) + ["--pool", pool_file(), "--part", str(i), "--parts", str(parts)])
        return out, hang

    build_harness(profile)
    pool_file()
    with cf.ThreadPoolExecutor(max_workers=MAXJVM) as ex:
        for out, hang in ex.map(gen, range(parts)):
            files.append(out)
            for h in (hang or []):
                ctx.violations.append({"flow": "V", "suite": suite, "op": h.get("op"), "event": h, "why": ("driver-abort" if h.get("op") == "driver-abort" else "hang"), "params": params})
    res = validate_traces(files, tag=ctx.pid, timeout=timeout or (900 if ctx.quick() else 7200))
    ctx.states += res["distinct"]
    ctx.transitions += res["consumed"]
    ctx.traces += res["consumed"]
    opcount = {}
    for fpath in files:
        with open(fpath) as f:
            for i, line in enumerate(f):
                m = re.search(r'"op":"([^"]+)"', line)
                k = m.group(1) if m else "?"
                m2 = re.search(r'"fn":"([^"]+)"', line)
                if m2:
                    k += "/" + m2.group(1)
                opcount[k] = opcount.get(k, 0) + 1
                if fpath == files[0] and i in (1, 7) and len(ctx.samples) < 6:
                    ctx.samples.append(json.loads(line))
    for b in res["bad"]:
        ev = fetch_event(b["file"], b["seq"])
        pr = dict(params)
        pr["file"] = os.path.basename(b["file"])
        ctx.violations.append({"flow": "V", "suite": suite, "op": b["op"], "event": ev, "why": b["why"], "params": pr})
    ctx.flows.append({"flow": "V", "suite": suite, "profile": profile, "programs": parts, "records": res["records"], "validated": res["consumed"],
                      "mismatches": len(res["bad"]), "ops": opcount, "wall_s": round(time.time() - t0, 1)})
    return files


def table_file(kt=64):
    return ensure_gen(f"table-{kt}.json", "GenTable", extra_env={"KT": str(kt)})


def flow_symwalk(ctx, acts=None, mode="both", nreg=2, k=4, rescale=True, groups=("G1", "G2"), label="symgroup"):
    """R: TLC explores the symbolic group machine exhaustively and prints every transition; the driver executes them on
    the real library (constructively for every pre-state, and by a breadth-first walk with real histories)."""
    t0 = time.time()
    cfg = f"{BUILD}/tr/{ctx.pid}-{label}.cfg"
    os.makedirs(os.path.dirname(cfg), exist_ok=True)
    with open(cfg, "w") as f:
        f.write(f"CONSTANTS K = {k}\nNReg = {nreg}\nScalars <- MCScalars\nWithRescale = {'TRUE' if rescale else 'FALSE'}\n"
                "INIT Init\nNEXT Next\nINVARIANT TypeOK\nCHECK_DEADLOCK FALSE\n")
    o, rc, dt = run_tlc("MC_SymGroup", cfg=cfg, workers=4, timeout=1800, xmx="6g", tag=ctx.pid + "-sym")
    sg, sd = tlc_counts(o)
    if rc != 0 or "No error has been found" not in o:
        raise ToolError("SymGroup model check failed:\n" + o[-2000:])
    trans = tlc_user_lines(o, "T")
    if acts is not None:
        trans = [t for t in trans if t["act"] in acts]
    if not trans:
        raise ToolError("SymGroup produced no transitions")
    tfile = f"{ctx.dir}/{label}.trans"
    with open(tfile, "w") as f:
        for t in trans:
            f.write(json.dumps(t) + "\n")
    tab = table_file()
    binp = build_harness("release")

    def one(g):
        outp = f"{ctx.dir}/{label}-{g}"
        r = sh([binp, "symwalk", "--out", outp, "--in", tfile, "--table", tab, "--focus", g, "--mode", mode, "--seed", str(ctx.seed)], timeout=7200, check=False)
        if r.returncode == 101:      # the replayer panicked while shaping an operand with library calls: data, not a tool error
            return g, {"constructive_executed": 0, "walk_executed": 0, "mismatches": 1,
                       "first_mismatches": [{"mode": "abort", "why": "driver-abort", "act": ["abort", []], "stderr": r.stdout[-1200:]}]}
        if r.returncode != 0:
            raise ToolError(f"symwalk {g} failed: {r.stdout[-1500:]}")
        return g, json.load(open(outp + ".result.json"))

    with cf.ThreadPoolExecutor(max_workers=2) as ex:
        results = list(ex.map(one, groups))
    ctx.states += sd
    ctx.transitions += sg
    for g, r in results:
        ctx.traces += r["constructive_executed"] + r["walk_executed"]
        for m in r["first_mismatches"]:
            act = m.get("act", ["?"])[0] if isinstance(m.get("act"), list) else "?"
            ctx.violations.append({"flow": "R", "suite": "symwalk", "op": f"sym.{act}", "why": m.get("why", "mismatch"),
                                   "event": {"op": f"sym.{act}", "G": g, "transition": m},
                                   "params": {"acts": sorted(acts) if acts else None, "mode": mode, "nreg": nreg, "k": k, "rescale": rescale, "groups": [g], "seed": ctx.seed}})
        rr = dict(r)
        rr.pop("first_mismatches", None)
        ctx.flows.append(dict(flow="R", model="SymGroup", tlc_states_generated=sg, tlc_distinct_states=sd, wall_s=round(time.time() - t0, 1), **rr))
    if len(ctx.samples) < 6:
        ctx.samples.append({"sym_transition": trans[len(trans) // 2]})


def flow_sympair(ctx, acts=None, mode="both", k=1, kg=2, label="sympair"):
    """R: TLC explores all interleavings of the symbolic pairing machine (mutations of P and Q, Prepare, the three entry
    points, prepared pairings directly and through clone(), Gt arithmetic); the driver executes every transition."""
    t0 = time.time()
    cfg = f"{BUILD}/tr/{ctx.pid}-{label}.cfg"
    os.makedirs(os.path.dirname(cfg), exist_ok=True)
    with open(cfg, "w") as f:
        f.write(f"CONSTANTS K = {k}\nKG = {kg}\nScalars <- MCScalars\nINIT Init\nNEXT Next\nINVARIANT TypeOK\nCHECK_DEADLOCK FALSE\n")
    o, rc, dt = run_tlc("MC_SymPair", cfg=cfg, workers=4, timeout=3600, xmx="8g", tag=ctx.pid + "-sym")
    sg, sd = tlc_counts(o)
    if rc != 0 or "No error has been found" not in o:
        raise ToolError("SymPair model check failed:\n" + o[-2000:])
    trans = tlc_user_lines(o, "T")
    if acts is not None:
        trans = [t for t in trans if t["act"] in acts]
    tfile = f"{ctx.dir}/{label}.trans"
    with open(tfile, "w") as f:
        for t in trans:
            f.write(json.dumps(t) + "\n")
    binp = build_harness("release")
    outp = f"{ctx.dir}/{label}-walk"
    r = sh([binp, "sympair", "--out", outp, "--in", tfile, "--table", table_file(), "--mode", mode, "--seed", str(ctx.seed)], timeout=7200, check=False)
    if r.returncode == 101:
        res = {"constructive_executed": 0, "walk_executed": 0, "mismatches": 1,
               "first_mismatches": [{"mode": "abort", "why": "driver-abort", "act": ["abort", []], "stderr": r.stdout[-1200:]}]}
    elif r.returncode != 0:
        raise ToolError(f"sympair failed: {r.stdout[-1500:]}")
    else:
        res = json.load(open(outp + ".result.json"))
    ctx.states += sd
    ctx.transitions += sg
    ctx.traces += res["constructive_executed"] + res["walk_executed"]
    for m in res["first_mismatches"]:
        act = m.get("act", ["?"])[0] if isinstance(m.get("act"), list) else "?"
        ctx.violations.append({"flow": "R", "suite": "sympair", "op": f"sympair.{act}", "why": m.get("why", "mismatch"),
                               "event": {"op": f"sympair.{act}", "transition": m},
                               "params": {"sympair": True, "acts": sorted(acts) if acts else None, "mode": mode, "k": k, "kg": kg, "seed": ctx.seed}})
    rr = dict(res)
    rr.pop("first_mismatches", None)
    ctx.flows.append(dict(flow="R", model="SymPair", tlc_states_generated=sg, tlc_distinct_states=sd, wall_s=round(time.time() - t0, 1), **rr))
    if len(ctx.samples) < 6 and trans:
        ctx.samples.append({"sympair_transition": trans[len(trans) // 3]})


# ------------------------------------------------------------------------------------------------ flow: Level-B / generic model check
def flow_model(ctx, module, cfg=None, workers=8, timeout=1200, xmx="6g", label=None, must_hold=True, consts=None):
    """Model-check a specification module with TLC. A failure is reported as MODEL-FAIL in the evidence (and makes the
    run a tool error): Level-B models are transcriptions and do not move with the code, so they never produce a
    VIOLATION line by themselves."""
    t0 = time.time()
    o, rc, dt = run_tlc(module, cfg=cfg, workers=workers, timeout=timeout, xmx=xmx, tag=ctx.pid + "-B")
    sg, sd = tlc_counts(o)
    ok = ("No error has been found" in o) and rc == 0
    ctx.states += sd
    ctx.transitions += sg
    ctx.models[label or (cfg or module)] = {"ok": ok, "states_generated": sg, "distinct_states": sd, "wall_s": round(dt, 1)}
    if must_hold and not ok:
        raise ToolError(f"model {module}/{cfg} failed or did not finish:\n{o[-3000:]}")
    return o, ok


def flow_levelb(ctx, module, consts, invariants, init="Init", nxt="Next", label=None, workers=8, timeout=1800, xmx="6g"):
    """B: a transcription of the code's algorithm, model-checked exhaustively at scaled-down parameters against the
    textbook definition (design-level evidence; never a VIOLATION by itself, see DESIGN 1.5)."""
    label = label or (module + "-" + "-".join(str(v) for v in consts.values()))
    cfg = f"{BUILD}/tr/{ctx.pid}-{label}.cfg"
    os.makedirs(os.path.dirname(cfg), exist_ok=True)
    with open(cfg, "w") as f:
        f.write("CONSTANTS\n" + "\n".join(f"{k} {'<-' if isinstance(v, str) and v.startswith('@') else '='} {v[1:] if isinstance(v, str) and v.startswith('@') else v}" for k, v in consts.items()))
        f.write(f"\nINIT {init}\nNEXT {nxt}\nINVARIANTS {' '.join(invariants)}\nCHECK_DEADLOCK FALSE\n")
    return flow_model(ctx, module, cfg=cfg, workers=workers, timeout=timeout, xmx=xmx, label=label)


def flow_tlaps(ctx, module="MontArith"):
    """Unbounded companion of ImplMont: lemmas about the word-level case analysis for EVERY radix R and modulus p with
    p < R < 2p, proved by TLAPS (SMT). Re-proved from scratch on every run (the fingerprint cache is removed)."""
    d = f"{SPEC}/proofs"
    shutil.rmtree(f"{d}/.tlacache", ignore_errors=True)
    t0 = time.time()
    r = sh(["tlapm", "--threads", "8", f"{module}.tla"], cwd=d, timeout=900, check=False)
    m = re.search(r"All (\d+) obligations proved", r.stdout)
    ok = m is not None and r.returncode == 0
    ctx.models[f"TLAPS:{module}"] = {"ok": ok, "obligations_proved": int(m.group(1)) if m else 0, "wall_s": round(time.time() - t0, 1)}
    if not ok:
        raise ToolError(f"TLAPS proof of {module} failed:\n{r.stdout[-2000:]}")


def levelb_mont(ctx):
    inv = ["AddOK", "SubOK", "Mul2OK", "NegOK", "Div2OK", "MulOK", "SqrOK"]
    for m in ([131] if ctx.quick() else [131, 181, 251]):
        flow_levelb(ctx, "ImplMont", {"W": 2, "M": m}, inv)
    flow_levelb(ctx, "ImplMontDiv", {"W": 2, "M": 181}, ["DivOK", "InvOK"], init="InitD", nxt="NextD")


def levelb_sop(ctx):
    for m in ([13] if ctx.quick() else [9, 11, 13]):     # not 15: with 1-bit limbs the two spare limbs of the accumulator give only a factor 4 of headroom (2^128 in the code)
        flow_levelb(ctx, "ImplMontSop", {"W": 1, "M": m, "BSet": "@AllB"}, ["SopOK"], init="InitS", nxt="NextS")
    if not ctx.quick():
        flow_levelb(ctx, "ImplMontSop", {"W": 2, "M": 181, "BSet": "@BoundaryB"}, ["SopOK"], init="InitS", nxt="NextS", workers=12, timeout=3600)


def levelb_jac(ctx):
    flow_levelb(ctx, "ImplJacobian", {"P": 7, "B": 3}, ["AddOK", "SubOK", "DblOK", "NegOK", "EqOK", "AffOK", "MulOK"])
    if not ctx.quick():
        flow_levelb(ctx, "ImplJacobian", {"P": 13, "B": 2}, ["AddOK", "SubOK", "DblOK", "NegOK", "EqOK", "AffOK", "MulOK"], workers=12, timeout=3600)


def levelb_tower(ctx):
    # TowerAlgo over F_13 against the polynomial ring: Fq2 all pairs, Fq12 samples (quick); Fq4 all elements x structured set, Frobenius codes (thorough)
    def tw(init, label, workers=8):
        cfg = f"{BUILD}/tr/{ctx.pid}-ImplTower-{label}.cfg"
        os.makedirs(os.path.dirname(cfg), exist_ok=True)
        with open(cfg, "w") as f:
            f.write(f"INIT {init}\nNEXT Next\nINVARIANT AllOK\nCHECK_DEADLOCK FALSE\n")
        flow_model(ctx, "ImplTower", cfg=cfg, workers=workers, timeout=3600, xmx="6g", label=f"ImplTower-{label}")
    tw("Init2", "Fq2")
    tw("Init12", "Fq12")
    if not ctx.quick():
        tw("Init4", "Fq4", workers=12)
        tw("Init4F", "Fq4-frobenius", workers=12)


def levelb_sqrt(ctx):
    for pr in ([13, 29, 37] if ctx.quick() else [13, 29, 37, 53, 61]):
        flow_levelb(ctx, "ImplSqrt", {"P": pr, "FIXED": "TRUE"}, ["FqOK", "Fq2Sound", "Fq2Complete", "Fq2NoFalse"], workers=4)


# ------------------------------------------------------------------------------------------------ properties
def p_C06(ctx):
    flow_trace(ctx, "fp", 200000, 600000, chunk=12000)
    levelb_mont(ctx)
    flow_tlaps(ctx)


def p_C12(ctx):
    flow_trace(ctx, "fq2", 18000, 240000, chunk=3000)
    levelb_sop(ctx)


def p_C13(ctx):
    flow_trace(ctx, "conv", 10 ** 9, 10 ** 9, chunk=4000)
    flow_levelb(ctx, "ImplMontDiv", {"W": 2, "M": 181}, ["DivOK", "InvOK"], init="InitD", nxt="NextD")
    levelb_conv(ctx)


def levelb_conv(ctx):
    """The conversion layer (length dispatch of from_slice, from_hash, from_str, to_slice, set_bit) transcribed on the limb
    routines of ImplMont: every digit string up to one digit beyond the double-width limit, every decimal string of <= 3 symbols."""
    inv = ["SliceOK", "HashOK", "StrOK", "RoundTripOK", "SetBitOK"]
    for m in ([13] if ctx.quick() else [9, 11, 13, 15]):
        flow_levelb(ctx, "ImplConv", {"W": 1, "M": m, "MaxLen": 5, "DROPCARRY": "FALSE"}, inv, init="CInit", nxt="CNext")
    for m in ([181] if ctx.quick() else [131, 181, 251]):
        flow_levelb(ctx, "ImplConv", {"W": 2, "M": m, "MaxLen": 4, "DROPCARRY": "FALSE"}, inv, init="CInit", nxt="CNext")


def twist_file(ctx, npts):
    return ensure_gen(f"twist-{ctx.seed}-{npts}.json", "GenTwist", extra_env={"SEED": str(ctx.seed), "NPTS": str(npts)})


def p_C04(ctx):
    flow_trace(ctx, "group", 9000, 120000, chunk=500, extra=["--focus", "law"])
    flow_symwalk(ctx, acts={"add", "sub", "neg", "gen", "zero"}, mode="constructive")
    levelb_jac(ctx)


def p_C05(ctx):
    flow_trace(ctx, "group", 5500, 60000, chunk=250, extra=["--focus", "mul"])
    # the edge scalars (0, 1, r-1, single bits, zero limbs) also under the dev profile: overflow checks and debug assertions
    # make "k*P panics" a profile-dependent outcome (seeded change mD-C05); same driver, same specification
    flow_trace(ctx, "group", 1500, 8000, profile="dev", chunk=250, extra=["--focus", "mul"], label="group-dev")
    flow_symwalk(ctx, acts={"mul"}, mode="constructive")


def p_C15(ctx):
    flow_trace(ctx, "group", 9000, 120000, chunk=500, extra=["--focus", "eq"])
    flow_symwalk(ctx, acts={"observe", "normalize", "affrt", "rescale"}, mode="constructive")


def p_C10(ctx):
    flow_trace(ctx, "encode", 6000, 60000, chunk=300, need={"g.encode": 5800})
    flow_symwalk(ctx, acts={"codec"}, mode="constructive")


def p_C08(ctx):
    a = flow_trace(ctx, "decode", 10 ** 9, 10 ** 9, profile="release", chunk=700)
    b = flow_trace(ctx, "decode", 10 ** 9, 10 ** 9, profile="dev", chunk=700)
    compare_profiles(ctx, "decode", a, b)
    # the structured invalid points of C09 (twist points outside the subgroup: orders 13, 1621, generic; other curves; near-curve
    # points whose curve equation fails in a single limb) offered to the decoders only, in both profiles
    tw = twist_file(ctx, 6 if ctx.quick() else 40)
    a = flow_trace(ctx, "affine", 10 ** 9, 10 ** 9, profile="release", chunk=600, extra=["--in", tw, "--focus", "decoders"], label="twist-dec")
    b = flow_trace(ctx, "affine", 10 ** 9, 10 ** 9, profile="dev", chunk=600, extra=["--in", tw, "--focus", "decoders"], label="twist-dec")
    compare_profiles(ctx, "twist-dec", a, b)


def p_C09(ctx):
    tw = twist_file(ctx, 6 if ctx.quick() else 40)
    a = flow_trace(ctx, "affine", 10 ** 9, 10 ** 9, chunk=600, extra=["--in", tw])
    # "always rejected" includes the unoptimised build: the same inputs under the dev profile, compared record by record
    b = flow_trace(ctx, "affine", 10 ** 9, 10 ** 9, profile="dev", chunk=600, extra=["--in", tw])
    compare_profiles(ctx, "affine", a, b)


def p_C14(ctx):
    flow_trace(ctx, "sqrt", 6500, 80000, chunk=400, need={"f2.sqrt": 3000})
    levelb_sqrt(ctx)


def p_C11(ctx):
    flow_trace(ctx, "gt", 2700, 30000, chunk=120, need={"gt.mul": 400, "gt.pow": 600})


def p_C01(ctx):
    flow_trace(ctx, "pairing", 1100, 6000, chunk=40, extra=["--focus", "laws"], need={"pair.laws": 150, "pair": 700})
    flow_programs(ctx, "gmachine", 6, 28, 200, 1200, extra=["--focus", "pair"], label="gm-pair")
    pair_acts = {"pair", "gtsquare", "gtinv", "gtpow", "gtmulpair"}
    if ctx.quick():
        flow_sympair(ctx, acts=pair_acts, mode="constructive", k=1, kg=2)
    else:
        flow_sympair(ctx, acts=pair_acts, mode="constructive", k=2, kg=4)


def p_C02(ctx):
    flow_trace(ctx, "pairing", 1150, 5000, chunk=40, extra=["--focus", "vector"], need={"pair": 1100})
    if not ctx.quick():
        # the pairing specification itself, instantiated on a toy BN curve on native integers (no Java): bilinearity grid
        flow_model(ctx, "MC_Toy82", workers=9, timeout=3600, xmx="6g", label="MC_Toy82")


def p_C03(ctx):
    flow_trace(ctx, "pairing", 1950, 8000, chunk=50, extra=["--focus", "agree"], need={"pair": 1600, "prep.reuse": 60})
    flow_programs(ctx, "gmachine", 6, 28, 250, 1500, extra=["--focus", "prep"], label="gm-prep")
    if ctx.quick():
        flow_sympair(ctx, mode="walk", k=1, kg=2)
    else:
        flow_sympair(ctx, mode="both", k=2, kg=4)


def levelb_machine(ctx):
    inv = ["Denotes", "WellFormed", "ObsByLog"]
    flow_levelb(ctx, "ImplMachine", {"P": 7, "B": 3, "Gx": 1, "Gy": 2}, inv, init="MInit", nxt="MNext")
    if not ctx.quick():
        flow_levelb(ctx, "ImplMachine", {"P": 13, "B": 2, "Gx": 1, "Gy": 4}, inv, init="MInit", nxt="MNext", workers=12)


def p_C16(ctx):
    # unbounded histories at small scale: the full reachable set of the transcribed Jacobian register machine on a tiny curve
    levelb_machine(ctx)
    # exhaustive small scope: the whole state graph of the symbolic machine, walked with real histories (no explicit rescaling)
    if ctx.quick():
        flow_symwalk(ctx, mode="both", nreg=2, k=4, rescale=False)
    else:
        flow_symwalk(ctx, mode="walk", nreg=3, k=2, rescale=False)
        flow_symwalk(ctx, mode="both", nreg=2, k=6, rescale=False, label="symgroup-k6")
    flow_programs(ctx, "gmachine", 12, 42, 400, 3000, extra=["--focus", "group"], label="gm-group")
    flow_programs(ctx, "gmachine", 6, 28, 250, 1500, extra=["--focus", "pair"], label="gm-pair")


def p_C07(ctx):
    flow_programs(ctx, "fmachine", 14, 56, 1500, 12000)
    for m in ([131] if ctx.quick() else [131, 181, 251]):
        # unbounded histories at small scale: full reachable set of the transcribed limb routines run as a register machine
        flow_levelb(ctx, "ImplFieldMachine", {"W": 2, "M": m}, ["Canonical", "Faithful", "EqByValue", "InvTerminates"], init="FInit", nxt="FNext")
    flow_tlaps(ctx)                 # results of add / sub / neg / mul2 / div2 / conditional subtraction / carry fold stay in [0, p), for every p < R < 2p
    if not ctx.quick():
        levelb_mont(ctx)


def p_C17(ctx):
    flow_trace(ctx, "tower", 800, 14000, chunk=50)
    # both hard-part addition chains, as exponent arithmetic modulo Phi12(q) at the real parameters
    flow_model(ctx, "ImplFinalExp", workers=1, timeout=600, xmx="2g", label="ImplFinalExp")
    levelb_tower(ctx)
    if not ctx.quick():
        # both Miller loops (MillerAlgo) against the textbook pairing on the toy BN curve
        flow_model(ctx, "MC_MillerToy", workers=6, timeout=3600, xmx="6g", label="MC_MillerToy")


def flow_dual(ctx, suite, nq, nt, chunk, extra=(), label=None, need=None):
    """C18: the same inputs through the release and the debug-assertion build; identical traces, both accepted."""
    a = flow_trace(ctx, suite, nq, nt, profile="release", chunk=chunk, extra=extra, label=label, need=need)
    n = nq if ctx.quick() else nt
    b = f"{ctx.dir}/{label or suite}-dev.ndjson"
    ex = list(extra) + ["--pool", pool_file()]
    hang = run_driver("dev", suite, b, ctx.seed, n, ctx.tier, ex, timeout=3600)
    for h in (hang or []):
        ctx.violations.append({"flow": "V", "suite": suite, "op": h.get("op"), "event": h, "why": ("driver-abort-dev" if h.get("op") == "driver-abort" else "hang-dev"),
                               "params": {"suite": suite, "profile": "dev", "seed": ctx.seed, "n": n, "tier": ctx.tier, "extra": list(extra)}})
    # the dev trace: no panic (every dev event is compared with the validated release event)
    compare_profiles(ctx, label or suite, a, b, rp={"dual": True, "suite": suite, "n": n, "extra": list(extra), "label": label or suite, "chunk": chunk})


def p_C18(ctx):
    tw = twist_file(ctx, 2 if ctx.quick() else 8)
    flow_dual(ctx, "fp", 6000, 100000, 6000, extra=["--focus", "nosweep"])
    flow_dual(ctx, "fq2", 3000, 50000, 3000, extra=["--focus", "nosweep"])
    flow_dual(ctx, "conv", 10 ** 9, 10 ** 9, 4000)
    flow_dual(ctx, "sqrt", 3900, 9000, 400, need={"f2.sqrt": 1400})
    flow_dual(ctx, "decode", 10 ** 9, 10 ** 9, 700)
    flow_dual(ctx, "affine", 10 ** 9, 10 ** 9, 600, extra=["--in", tw])
    flow_dual(ctx, "group", 5600, 14000, 400, need={"g.laws": 15, "g.mul": 15})
    flow_dual(ctx, "encode", 3000, 7000, 300, need={"g.encode": 2900})
    flow_dual(ctx, "gt", 120, 1500, 60, extra=["--focus", "nosweep"])
    flow_dual(ctx, "pairing", 1500, 3500, 50, extra=["--focus", "agree"], label="pairing-agree", need={"prep.reuse": 8})
    flow_dual(ctx, "pairing", 900, 2000, 40, extra=["--focus", "laws"], label="pairing-laws", need={"pair.laws": 80})
    flow_dual(ctx, "tower", 100, 1000, 50)
    flow_dual(ctx, "gmachine", 300, 3000, 10 ** 9, extra=["--focus", "pair"], label="gmachine")
    flow_dual(ctx, "fmachine", 1500, 15000, 10 ** 9, label="fmachine")


def compare_profiles(ctx, suite, a, b, rp=None):
    """C08/C18: the same driver source built twice must record the same events (field by field)."""
    n = 0
    rp = rp or {"dual": True, "suite": suite, "n": 10 ** 9, "extra": [], "label": suite, "chunk": 700}
    rp = dict(rp, seed=ctx.seed, tier=ctx.tier)
    with open(a) as fa, open(b) as fb:
        la, lb = fa.readlines(), fb.readlines()
    if len(la) != len(lb):
        ctx.violations.append({"flow": "P", "suite": suite, "op": "profile-length", "why": "profile-divergence",
                               "event": {"op": "profile-length", "release": len(la), "dev": len(lb)}, "params": rp})
    for x, y in zip(la, lb):
        if x != y:
            n += 1
            if n <= 20:
                ex, ey = json.loads(x), json.loads(y)
                ctx.violations.append({"flow": "P", "suite": suite, "op": ex.get("op"), "why": "profile-divergence",
                                       "event": {"op": ex.get("op"), "release": ex, "dev": ey},
                                       "params": rp})
    ctx.flows.append({"flow": "P", "suite": suite, "compared": min(len(la), len(lb)), "divergent": n})
    ctx.classes[f"profile-compared-{suite}"] = min(len(la), len(lb))


PROPS = {
    "C01": p_C01,
    "C02": p_C02,
    "C03": p_C03,
    "C04": p_C04,
    "C05": p_C05,
    "C06": p_C06,
    "C07": p_C07,
    "C08": p_C08,
    "C09": p_C09,
    "C10": p_C10,
    "C11": p_C11,
    "C12": p_C12,
    "C13": p_C13,
    "C14": p_C14,
    "C15": p_C15,
    "C16": p_C16,
    "C17": p_C17,
    "C18": p_C18,
}

HOOK_COMMITS = ["638413c"]

TV = "trace validation against an executable TLA+ specification (TLC)"
META = {
    "C06": {"technique": "TLC trace validation of Fq/Fr operations on TLC-generated Montgomery-boundary, V-boundary and quotient-pattern operand families; exhaustive TLC model check of the transcribed limb arithmetic (ImplMont/ImplMontDiv); TLAPS proof of the word-level case analysis for every modulus",
            "text": "Every recorded Fq/Fr operation (all six operator forms, neg, inverse, pow, is_zero, is_even, ==) is recomputed by TLC from the logged canonical encodings with the Level-A field specification (integers mod q / r) and must match byte for byte; operands come from a TLC-generated pool of values whose Montgomery limbs sit on carry boundaries, designated pairs summing to p and 2^256 in the Montgomery domain, and random values. Sampling at 256 bits, exhaustive only in the scaled-down Level-B model."},
    "C01": {"technique": "TLC trace validation of all three pairing entry points against e(P1,P2)^(ab) (TLA+ textbook pairing), register-machine programs, and TLC-enumerated SymPair transitions replayed on the library",
            "text": "Every recorded pairing (pairing, fast_pairing, G2Prepared::pairing) must equal e(P1,P2)^(ab) computed by TLC from the textbook pairing of the generators, with the operand discrete logarithms a, b themselves verified by textbook scalar multiplication of the abstracted operands; additivity in both arguments, e(cP,dQ) = e(P,Q)^(cd) and g^(r-1) g = 1 are checked between recorded values with the specification's F_q^12 arithmetic; identity arguments in the forms (0,1,0), (x,y,0) from P-P and arbitrary (x,y,0); boundary scalars; register-machine programs interleave pairings with group operations."},
    "C02": {"technique": TV + " against the naive textbook R-ate pairing (Miller function on E(F_q^12), Frobenius lines, plain final exponentiation) evaluated by TLC, 384 bytes",
            "text": "For recorded pairings of aP1, bP2 (a, b non-zero: boundary, pool and random; operands in representations A, J, S) TLC evaluates the full textbook R-ate pairing of the standard on the abstracted operands (no shared formula with the code: polynomial F_q[w]/(w^12+2), affine lines with inversions, unsplit 2811-bit exponent) for one entry point per pair and e(P1,P2)^(ab) for all three, and compares all 384 bytes; the specification itself reproduces the standard's published vector (MC_LevelA)."},
    "C03": {"technique": "TLC trace validation of entry-point agreement over representations + TLC exploration of all interleavings of prepare / prepared pairing / clone / mutations (SymPair) replayed by a breadth-first walk with real histories",
            "text": "For each (P,Q) the three entry points are recorded on several representation pairs (A, J, S, identity forms) and all must equal the same specification value; prepared values are reused for several G1 inputs in two orders and through clone() while the source variable is overwritten; register-machine programs interleave prepare / prepared-pairing / clone with mutations of the source registers and explicit rescalings, the specification's prepared register holding only the value captured at preparation."},
    "C04": {"technique": "TLC trace validation against the affine group law (TLA+), TLC-enumerated SymGroup transitions replayed on the library, and exhaustive TLC model check of the transcribed Jacobian adder on tiny curves (ImplJacobian)",
            "text": "Recorded G1/G2 additions, subtractions, negations and commutativity/associativity/neutrality triples, with operands in every representation (z=1, library Jacobian, lambda-rescaled through G::new, identity as (0,1,0), as (x,y,0) left by P-P and as arbitrary (x,y,0)) and every relation (independent, equal, opposite, identity on either side, doubled), are abstracted by the specification itself (x/z^2, y/z^3 in TLA+) and compared with the textbook affine law; every result triple must satisfy y^2 = x^3 + b z^6; sampled events also check the logged discrete logarithms by textbook double-and-add."},
    "C05": {"technique": "TLC trace validation of P*k / k*P against affine double-and-add evaluated by TLC (release profile, and the edge-scalar family again under the dev profile); SymGroup mul transitions replayed",
            "text": "Recorded scalar multiplications (both operand orders) with boundary scalars (0, 1, 2, r-1, r-2, (r+-1)/2, 2^i, 2^i-1, long runs, Montgomery-boundary pool, random) on points in every representation including identity forms are recomputed by TLC with affine double-and-add; module laws ((s+t)P, (st)P, 0P, 1P, (r-1)P, (r-1)P+P = O) are checked between recorded results and against the specification."},
    "C07": {"technique": "stateful TLC trace validation of random programs over Fr/Fq/Fq2 registers; TLC fixpoint of all operation sequences on the transcribed limb routines (ImplFieldMachine); TLAPS lemmas (MontArith)",
            "text": "Random programs compose every public producer of a field element (zero, one, from_slice/TryFrom of every length, interpret, from_str, from_hash, Fr::random on constant/all-ones/counter/PRNG streams, every operator, neg, inverse, pow, sqrt, set_bit for indices 0..300, real/imaginary/new) in arbitrary order; after every step the specification, which computes the value from its own abstract registers, requires the encoding to be below the modulus and equal to its value, is_zero to hold exactly for 0 and the logged == row against all live registers to equal value equality; a hang is reported by a watchdog."},
    "C08": {"technique": TV + " of all six point decoders and Fq2::from_slice on malformed inputs, recorded under both build profiles",
            "text": "Every decoder is run on every length 0..140 (three fills), valid encodings offered to every decoder, truncations/extensions, single-bit and single-byte corruptions, prefix bytes, coordinate limbs replaced by limb+q, q and 2^256-1, small x with x+q, random x; TLC decides each input with the acceptance predicate of the specification (length, prefix, limbs below q, on curve, [r]P = O for G2, re-encoding equals input). The same inputs are recorded by the release and the debug-assertion builds of the same driver; the two traces must be identical, contain no panic, and both are validated."},
    "C09": {"technique": "TLC-generated twist points (Tonelli-Shanks, cofactor clearing) replayed into AffineG1/AffineG2::new and the G2 decoders; verdicts validated by TLC",
            "text": "TLC computes with the Level-A specification random points of the twist (order r*h), cofactor-cleared points, points of order 13, 1621 and dividing 13*1621, sums of a subgroup and a small-order point, near misses, points of other curves and on/off-curve pairs for G1; the real constructors and G2 decoders are run on them and TLC checks each verdict against OnCurve and [r]P = O."},
    "C10": {"technique": "TLC trace validation of the three encoders against the SM9 byte formats of the textbook coordinates; SymGroup codec transitions replayed",
            "text": "For P = k*generator and -P (both parities of y) in representations A, J, S the recorded raw / 0x04 / 0x02-0x03 encodings must equal the specification's encoding of the abstract point (imaginary part first, parity of the real part), decode back to the same point, and anchor events compare the abstract point with the textbook k*P computed by TLC."},
    "C14": {"technique": "TLC trace validation of Fq::sqrt / Fq2::sqrt (soundness by squaring, completeness by the Euler criterion); exhaustive TLC model check of the transcribed algorithms on five small fields (ImplSqrt)",
            "text": "Recorded square roots of 0, 1, -1, -2, small integers and their negatives, squares, negated squares, arbitrary elements, zero-imaginary and purely imaginary Fq2 elements, squares and squares times the non-square u: Some(s) must satisfy s*s = x and None must coincide with the Euler criterion (x^((q^2-1)/2) in Fq2) evaluated by TLC; compressed decoding of x-coordinates of real points must succeed for both prefixes."},
    "C16": {"technique": "TLC fixpoint of all histories of the transcribed Jacobian register machine on a tiny curve (ImplMachine); TLC-explored SymGroup state graph walked breadth-first with real library histories; stateful TLC trace validation of random register programs",
            "text": "Random programs (small scalar alphabet {0,1,2,r-1} and arbitrary scalars) over 4 G1, 4 G2, 3 Fr, 3 Gt and 2 prepared registers apply add, sub, neg, scalar multiplication in both orders, normalize, affine and encode/decode round trips, copies, pairings through all entry points and Gt arithmetic. The specification computes each new abstract value from its own registers (affine law, dlog arithmetic mod r) and requires the logged Jacobian triple to denote it, the encoding, is_zero and the full == row to be those predicted by the discrete logarithms alone, pairing bytes to equal e(P1,P2)^(k_p k_q), and sampled registers to be indistinguishable (==, encodings) from a freshly computed k*generator."},
    "C17": {"technique": "TLC trace validation of hook-exposed tower operations, final exponentiations and Miller loops against F_q[w]/(w^12+2); both addition chains checked as exponent arithmetic modulo Phi12(q) at the real parameters (ImplFinalExp)",
            "text": "Through the cfg-guarded re-exports, F_q^12 mul/sqr/inverse/Frobenius(1,2,3,6)/mul_015/pow(u128)/scale/mul_by_nonresidue and F_q^4 mul/sqr/inverse/mul_1/frobenius codes on random, sparse, subfield, unitary, zero elements are validated against polynomial arithmetic; final_exponentiation(x) and final_exp(x) must both equal x^((q^12-1)/r) for arbitrary non-zero x (None for 0); the chain constants must be t, 6t+2, 6t^2+1, 6t+5, 9 and the signed digits must expand 6t+2; both Miller loops, final-exponentiated by the specification, must equal the textbook pairing."},
    "C18": {"technique": "dual-profile trace recording (release vs dev with debug-assertions and overflow-checks) + trace validation by TLC",
            "text": "The driver is built twice from the same source; samples of the input classes of every other property (field pools, conversions, malformed decoder inputs, twist points, group/pairing/tower operations, register-machine programs) are recorded under both profiles; the traces must be identical event by event, contain no panic, and the release trace is validated by the trace specification (so identical cannot mean identically wrong)."},
    "C15": {"technique": "TLC trace validation of ==, normalize and affine conversion on every representation pair; SymGroup observe/normalize/affrt/rescale transitions replayed",
            "text": "Recorded equality tests (with reverse and reflexive), normalisations and affine round trips on operands in every representation and relation (equal point/other representative, opposite, identity forms, rescaled by -1) are compared with equality of the abstract points computed by the specification; normalize must yield z = 1 for non-identity points."},
    "C11": {"technique": TV + " of Gt mul/pow/inverse/one/== against F_q[w]/(w^12+2) evaluated by TLC",
            "text": "Recorded Gt products, powers (boundary and random exponents), inverses, one and equality tests on pairing values, their products, powers and inverses are recomputed by TLC in the polynomial representation of F_q^12; group and exponent laws are checked between recorded values and anchored to the specification; every 32-byte limb must be below q."},
    "C12": {"technique": "TLC trace validation of Fq2 operations against Fq[u]/(u^2+2) with TLC-generated carry-class, quotient-pattern and cancellation operand families; exhaustive TLC model check of the transcribed sum_of_products (ImplMontSop)",
            "text": "Every recorded Fq2 operation (all operator forms, neg, parts, new, from_slice, ==, ring laws, and the doubling of (x,y,1) observed through G2 accessors) is recomputed by TLC in Fq[u]/(u^2+2) from the logged encodings; components from the boundary pool, zero components and random values."},
    "C13": {"technique": "TLC trace validation of byte/decimal/hash conversions and set_bit against n mod p; exhaustive TLC model checks of the transcribed U512::divrem (ImplMontDiv) and of the transcribed conversion layer over every short input string (ImplConv)",
            "text": "from_slice/TryFrom for every length 0..70 and several fills (including multiples of p and r-1 near the top of the range), interpret, from_str on digit and non-digit strings, from_hash, to_big_endian with every buffer length, round trips and set_bit for every index 0..300 are validated event by event by TLC against the integer specification."},
}


# ------------------------------------------------------------------------------------------------ driver of one property
def violation_sig(v):
    e = v.get("event") or {}
    return json.dumps({"op": v.get("op"), "why": v.get("why"), "ev": {k: e[k] for k in sorted(e) if k not in ("seq",)}}, sort_keys=True)


def repo_lock(exclusive=False):
    """Checks read /repo's working tree; bin/seedtest temporarily patches it. A shared/exclusive advisory lock keeps a
    background check from building against a half-applied seeded change (that produced a spurious alarm once)."""
    import fcntl
    if os.environ.get("VERIF_LOCK_HELD"):
        return None
    f = open("/tmp/verif-repo.lock", "w")
    fcntl.flock(f, fcntl.LOCK_EX if exclusive else fcntl.LOCK_SH)
    return f


def run_property(pid, tier, seed):
    _lock = repo_lock()
    ctx = Ctx(pid, tier, seed)
    PROPS[pid](ctx)
    known = load_known()
    nviol = 0
    seen_known = {}
    lines = []
    reported = 0
    vclasses = {}
    for v in ctx.violations:
        e0 = v.get("event") or {}
        key = "/".join(str(x) for x in (v.get("op"), v.get("why"), e0.get("G"), e0.get("F"), e0.get("fmt"), e0.get("v")) if x is not None)
        vclasses[key] = vclasses.get(key, 0) + 1
        k = match_known(known, pid, v.get("event") or {})
        if k is not None:
            seen_known.setdefault(k["id"], [k, 0])
            seen_known[k["id"]][1] += 1
            continue
        nviol += 1
        if reported < 20:
            reported += 1
            path = write_replay(pid, reported, {"property": pid, "flow": v["flow"], "why": v["why"], "op": v.get("op"),
                                               "params": v.get("params"), "event": v.get("event")})
            lines.append(f"VIOLATION property={pid} replay={path}")
    for kid, (k, cnt) in seen_known.items():
        print(f"KNOWN-FINDING: property={pid} {k['what']} [{kid}; {cnt} event(s) this run]")
    wall = time.time() - ctx.t0
    cov = {
        "states": max(ctx.states, 0), "transitions": max(ctx.transitions, 0),
        "traces_validated_against_impl": ctx.traces,
        "samples": ctx.samples[:6] if ctx.samples else [],
        "flows": ctx.flows, "models": ctx.models, "input_classes": ctx.classes,
        "known_findings_seen": {k: c for k, (_, c) in seen_known.items()},
        "violation_classes": vclasses,
        "exhaustive": False,
    }
    if not cov["samples"] or cov["states"] < 1 or cov["transitions"] < 1:
        write_evidence(pid, tier, seed, cov, wall, nviol, ASSUME_COMMON)
        raise ToolError("vacuous run: nothing was explored")
    write_evidence(pid, tier, seed, cov, wall, nviol, ASSUME_COMMON)
    for l in lines:
        print(l)
    print(f"[{pid}] tier={tier} seed={seed} states={cov['states']} transitions={cov['transitions']} "
          f"validated={ctx.traces} violations={nviol} known={sum(c for _, c in seen_known.values())} wall={wall:.1f}s")
    return 1 if nviol else 0


def replay_file(path):
    r = json.load(open(path))
    pid = r["property"]
    p = r.get("params") or {}
    if r.get("flow") == "P" or (r.get("flow") == "V" and p.get("profile") == "dev"):
        ctx = Ctx(pid + "-replay", p.get("tier", "quick"), p.get("seed", 1))
        flow_dual(ctx, p["suite"], p.get("n", 10 ** 9), p.get("n", 10 ** 9), p.get("chunk", 700), extra=p.get("extra", ()), label=p.get("label"))
        same = [v for v in ctx.violations if v.get("op") == r.get("op")]
        print(f"replay of {path}: {len(ctx.violations)} divergent / mismatching event(s), {len(same)} with op {r.get('op')}")
        if same:
            print(f"VIOLATION property={pid} replay={path}")
            return 1
        return 0
    if r.get("flow") == "V":
        ctx = Ctx(pid + "-replay", p.get("tier", "quick"), p.get("seed", 1))
        if "parts" in p:
            flow_programs(ctx, p["suite"], p["parts"], p["parts"], p["n"], p["n"], profile=p.get("profile", "release"), extra=p.get("extra", ()))
        else:
            flow_trace(ctx, p["suite"], p["n"], p["n"], profile=p.get("profile", "release"), extra=p.get("extra", ()))
        same = [v for v in ctx.violations if v.get("op") == r.get("op")]
        print(f"replay of {path}: {len(ctx.violations)} mismatching event(s), {len(same)} with op {r.get('op')}")
        if same:
            print(f"VIOLATION property={pid} replay={path}")
            return 1
        return 0
    if r.get("flow") == "R" and p.get("sympair"):
        ctx = Ctx(pid + "-replay", "quick", p.get("seed", 1))
        flow_sympair(ctx, acts=set(p["acts"]) if p.get("acts") else None, mode=p.get("mode", "both"), k=p.get("k", 1), kg=p.get("kg", 2))
        same = [v for v in ctx.violations if v.get("op") == r.get("op")]
        print(f"replay of {path}: {len(ctx.violations)} mismatching transition(s), {len(same)} with action {r.get('op')}")
        if same:
            print(f"VIOLATION property={pid} replay={path}")
            return 1
        return 0
    if r.get("flow") == "R":
        ctx = Ctx(pid + "-replay", "quick", p.get("seed", 1))
        flow_symwalk(ctx, acts=set(p["acts"]) if p.get("acts") else None, mode=p.get("mode", "both"), nreg=p.get("nreg", 2), k=p.get("k", 4),
                     rescale=p.get("rescale", True), groups=tuple(p.get("groups", ("G1", "G2"))))
        same = [v for v in ctx.violations if v.get("op") == r.get("op")]
        print(f"replay of {path}: {len(ctx.violations)} mismatching transition(s), {len(same)} with action {r.get('op')}")
        if same:
            print(f"VIOLATION property={pid} replay={path}")
            return 1
        return 0
    raise ToolError("unknown replay flow")


def setup():
    """Build everything that can be built ahead of time and validate the specification itself."""
    t0 = time.time()
    ensure_overrides()
    build_harness("release")
    build_harness("dev")
    pool_file()
    table_file()
    hiw_file()

    def job(args):
        name, mod, cfg, to = args
        o, rc, dt = run_tlc(mod, cfg=cfg, workers=(7 if mod in ("MC_Toy82", "MC_MillerToy") else 1), timeout=to, xmx="3g", tag="setup")
        ok = rc == 0 and "No error has been found" in o
        return name, ok, dt, o

    jobs = [("MC_BigNat (Java overrides == pure TLA+ definitions)", "MC_BigNat", None, 1200),
            ("MC_LevelA (standard's vector, orders, bilinearity, Frobenius, codec)", "MC_LevelA", None, 1200),
            ("MC_Toy82 (generic pairing modules on a toy BN curve, native integers, no Java)", "MC_Toy82", None, 1800),
            ("MC_MillerToy (transcribed Miller loops = textbook pairing on the toy curve)", "MC_MillerToy", None, 1800)]
    bad = []
    with cf.ThreadPoolExecutor(max_workers=4) as ex:
        for name, ok, dt, o in ex.map(job, jobs):
            print(f"[setup] {name}: {'ok' if ok else 'FAILED'} in {dt:.0f}s")
            if not ok:
                bad.append(name)
                print(o[-2000:])
    # every module parses (SANY)
    mods = sorted(glob.glob(f"{SPEC}/*.tla") + glob.glob(f"{SPEC}/impl/*.tla"))
    for m in mods:
        r = sh(["java", "-cp", TLA_CP, f"-DTLA-Library={SPEC}", "tla2sany.SANY", os.path.basename(m)], cwd=os.path.dirname(m), check=False, timeout=300)
        if "Semantic errors" in r.stdout or "Parse Error" in r.stdout or "Fatal errors" in r.stdout or r.returncode != 0:
            bad.append("SANY " + m)
            print(r.stdout[-1500:])
    print(f"[setup] {len(mods)} modules parsed by SANY; total {time.time() - t0:.0f}s")
    if bad:
        raise ToolError("setup failed: " + ", ".join(bad))
    return 0


def selftest():
    """Demonstrates that the specification is bound to the implementation: corrupted traces / transitions are rejected,
    exactly at the corrupted place, and the Level-B models are not vacuous."""
    ctx = Ctx("selftest", "quick", 1)
    results = []
    # 1. stateful trace: corrupt one output byte, one == entry, one register id
    out = f"{ctx.dir}/gm.ndjson"
    run_driver("release", "gmachine", out, 1, 250, "quick", ["--pool", pool_file(), "--focus", "pair"])
    L = [json.loads(l) for l in open(out)]
    marks = {}
    for e in L:
        if e["op"] == "m.gadd" and e["seq"] > 40 and "jac" not in marks and not e["isz"]:
            e["jac"][1][7] ^= 1; marks["jac"] = e["seq"]
        elif e["op"] in ("m.gneg", "m.gnorm") and e["seq"] > 90 and "eqv" not in marks and e["eqv"]:
            e["eqv"][0] = not e["eqv"][0]; marks["eqv"] = e["seq"]
        elif e["op"] == "m.gsub" and e["seq"] > 130 and "reg" not in marks and e["a"] != e["b"]:
            e["a"], e["b"] = e["b"], e["a"]; marks["reg"] = e["seq"]
        elif e["op"] in ("m.pair", "m.preppair") and e["seq"] > 160 and "pair" not in marks:
            e["out"][100] ^= 0x80; marks["pair"] = e["seq"]
    cor = f"{ctx.dir}/gm-corrupt.ndjson"
    with open(cor, "w") as f:
        for e in L:
            f.write(json.dumps(e) + "\n")
    r0 = validate_traces([out], tag="selftest")
    r1 = validate_traces([cor], tag="selftest")
    got = sorted(b["seq"] for b in r1["bad"])
    want = sorted(marks.values())
    # a swapped register in a subtraction changes the spec's register from then on: later events may legitimately mismatch too
    ok1 = len(r0["bad"]) == 0 and all(w in got for w in want) and min(got) == min(want)
    results.append(("corrupted stateful trace rejected at the corrupted records", ok1, {"corrupted": marks, "rejected_first": got[:8], "clean_trace_mismatches": len(r0["bad"])}))
    # 2. stateless trace: flip one bit of one field result
    out2 = f"{ctx.dir}/fp.ndjson"
    run_driver("release", "fp", out2, 1, 3000, "quick", ["--pool", pool_file(), "--focus", "nosweep"])
    L = [json.loads(l) for l in open(out2)]
    L[777]["out"][31] ^= 1 if isinstance(L[777]["out"], list) else 0
    cor2 = f"{ctx.dir}/fp-corrupt.ndjson"
    with open(cor2, "w") as f:
        for e in L:
            f.write(json.dumps(e) + "\n")
    r2 = validate_traces([cor2], tag="selftest")
    ok2 = [b["seq"] for b in r2["bad"]] == [L[777]["seq"]]
    results.append(("one flipped bit in one of 3000 field events rejected, all others accepted", ok2, {"rejected": [b["seq"] for b in r2["bad"]]}))
    # 3. spec -> impl: a transition with a wrong post-state must be reported by the replayer
    o, rc, dt = run_tlc("MC_SymGroup", workers=2, timeout=600, xmx="3g", tag="selftest")
    trans = tlc_user_lines(o, "T")
    sel = [t for t in trans if t["act"] in ("add", "neg")][:400]
    bad_t = None
    for t in sel:
        if t["act"] == "add" and t["post"][t["args"][0] - 1][0] != 0:
            bad_t = json.loads(json.dumps(t))
            d = bad_t["args"][0] - 1
            bad_t["post"][d][0] = -bad_t["post"][d][0]      # wrong discrete logarithm predicted
            bad_t["pre"] = t["pre"]
            break
    tf = f"{ctx.dir}/sym-bad.trans"
    with open(tf, "w") as f:
        f.write(json.dumps(bad_t) + "\n")
    binp = build_harness("release")
    sh([binp, "symwalk", "--out", f"{ctx.dir}/symbad", "--in", tf, "--table", table_file(), "--focus", "G1", "--mode", "constructive"], timeout=600)
    rr = json.load(open(f"{ctx.dir}/symbad.result.json"))
    ok3 = rr["mismatches"] >= 1
    results.append(("replayer reports a transition whose predicted post-state is wrong", ok3, {"mismatches": rr["mismatches"]}))
    # 4. Level-B models are not vacuous: the pinned (unrepaired) Fq2::sqrt algorithm is rejected by TLC
    cfg = f"{ctx.dir}/sqrt-unfixed.cfg"
    with open(cfg, "w") as f:
        f.write("CONSTANTS P = 29\nFIXED = FALSE\nINIT Init\nNEXT Next\nINVARIANTS FqOK Fq2Sound Fq2Complete Fq2NoFalse\nCHECK_DEADLOCK FALSE\n")
    o, rc, dt = run_tlc("ImplSqrt", cfg=cfg, workers=2, timeout=600, tag="selftest")
    ok4 = "Invariant Fq2Complete is violated" in o
    results.append(("ImplSqrt with the pinned algorithm (FIXED = FALSE) violates Fq2Complete", ok4, {}))
    cfg = f"{ctx.dir}/conv-dropcarry.cfg"
    with open(cfg, "w") as f:
        f.write("CONSTANTS W = 1\nM = 13\nMaxLen = 5\nDROPCARRY = TRUE\nINIT CInit\nNEXT CNext\nINVARIANTS SliceOK HashOK StrOK RoundTripOK SetBitOK\nCHECK_DEADLOCK FALSE\n")
    o, rc, dt = run_tlc("ImplConv", cfg=cfg, workers=2, timeout=600, tag="selftest")
    ok5 = "Invariant SliceOK is violated" in o or "Invariant HashOK is violated" in o
    results.append(("ImplConv with divrem lacking the carry disjunct (DROPCARRY = TRUE) violates SliceOK/HashOK", ok5, {}))
    allok = True
    for name, ok, info in results:
        print(("PASS " if ok else "FAIL ") + name + " " + json.dumps(info))
        allok = allok and ok
    os.makedirs(f"{V}/evidence", exist_ok=True)
    json.dump({"selftest": [{"name": n, "ok": ok, "info": i} for n, ok, i in results]}, open(f"{V}/evidence/selftest.json", "w"), indent=1)
    return 0 if allok else 2
