"""Plumbing for bin/check: building, running TLC and the Rust driver, parsing, evidence, findings."""
import os, sys, json, subprocess, time, hashlib, shutil, re, glob, threading
import concurrent.futures as cf

V = os.path.dirname(os.path.dirname(os.path.abspath(__file__)))     # /verif, or a snapshot of it (vp run)
SPEC = f"{V}/spec"
BUILD = f"{V}/build"
HARNESS = f"{V}/harness"
TLA_CP = "/opt/veriftools/tla/tla2tools.jar:/opt/veriftools/tla/CommunityModules-deps.jar"
OVR = f"{BUILD}/overrides"
NCPU = os.cpu_count() or 8
MAXJVM = max(2, min(14, NCPU - 2))


class ToolError(Exception):
    pass


def log(*a):
    print(*a, file=sys.stderr, flush=True)


def sh(cmd, cwd=None, env=None, timeout=None, check=True):
    e = dict(os.environ)
    if env:
        e.update(env)
    try:
        r = subprocess.run(cmd, cwd=cwd, env=e, timeout=timeout, stdout=subprocess.PIPE, stderr=subprocess.STDOUT, text=True)
    except subprocess.TimeoutExpired as ex:
        raise ToolError(f"timeout after {timeout}s: {' '.join(cmd)[:200]}")
    if check and r.returncode != 0:
        raise ToolError(f"command failed ({r.returncode}): {' '.join(cmd)[:300]}\n{r.stdout[-3000:]}")
    return r


# ------------------------------------------------------------------------------------------------ building
def newest_mtime(paths):
    m = 0
    for p in paths:
        for f in glob.glob(p, recursive=True):
            try:
                m = max(m, os.path.getmtime(f))
            except OSError:
                pass
    return m


def ensure_overrides():
    cls = f"{OVR}/BigNat.class"
    src = f"{SPEC}/overrides/BigNat.java"
    if not os.path.exists(cls) or os.path.getmtime(cls) < os.path.getmtime(src):
        os.makedirs(OVR, exist_ok=True)
        sh(["javac", "-cp", TLA_CP.split(":")[0], "-d", OVR, src])


_built = {}


def build_harness(profile="release"):
    """cargo build of the driver against /repo's current working tree, hooks on. Returns the binary path."""
    if profile in _built:
        return _built[profile]
    if not os.path.exists(f"{HARNESS}/Cargo.lock"):
        shutil.copy("/repo/Cargo.lock", f"{HARNESS}/Cargo.lock")
    cmd = ["cargo", "build", "--offline", "--quiet"] + (["--release"] if profile == "release" else [])
    t0 = time.time()
    env = {"CARGO_NET_OFFLINE": "true"}
    r = sh(cmd, cwd=HARNESS, env=env, timeout=1800, check=False)
    if r.returncode != 0:
        raise ToolError("cargo build failed:\n" + r.stdout[-4000:])
    p = f"{HARNESS}/target/{'release' if profile == 'release' else 'debug'}/sm9_verif_harness"
    log(f"[build] {profile} harness in {time.time() - t0:.1f}s")
    _built[profile] = p
    return p


def tlc_cmd(module, cfg=None, workers=1, metadir=None, xmx="2g", extra=()):
    d = SPEC if os.path.exists(f"{SPEC}/{module}.tla") else f"{SPEC}/impl"
    gc = ["-XX:ParallelGCThreads=2"] if int(workers) <= 2 else []      # many single-worker JVMs run side by side
    cmd = ["java", "-Xss1g", "-XX:+UseParallelGC"] + gc + [f"-Xmx{xmx}", f"-DTLA-Library={SPEC}",
           "-cp", f"{TLA_CP}:{OVR}", "tlc2.TLC", "-workers", str(workers), "-metadir", metadir,
           "-cleanup", "-noGenerateSpecTE"]
    cmd += ["-config", cfg or f"{module}.cfg"]
    cmd += list(extra)
    cmd += [f"{module}.tla"]
    return cmd, d


_run_ctr = [0]
_run_lock = threading.Lock()


def run_tlc(module, cfg=None, env=None, workers=1, timeout=900, xmx="2g", tag="run", extra=()):
    """Runs TLC; returns its output. Raises ToolError on timeout, JVM/TLC errors other than invariant violations."""
    ensure_overrides()
    with _run_lock:
        _run_ctr[0] += 1
        n = _run_ctr[0]
    md = f"{BUILD}/run/{tag}/{os.getpid()}-{n}"
    os.makedirs(md, exist_ok=True)
    cmd, d = tlc_cmd(module, cfg, workers, md, xmx, extra)
    t0 = time.time()
    r = sh(cmd, cwd=d, env=env, timeout=timeout, check=False)
    shutil.rmtree(md, ignore_errors=True)
    out = r.stdout
    return out, r.returncode, time.time() - t0


def tlc_counts(out):
    m = re.search(r"(\d+) states generated, (\d+) distinct states found", out)
    if not m:
        return 0, 0
    return int(m.group(1)), int(m.group(2))


def tlc_user_lines(out, tag):
    """Lines printed by PrintT(<<"TAG", "json">>) -> list of decoded JSON values."""
    res = []
    pat = re.compile(r'^<<"' + re.escape(tag) + r'", (".*")>>$')
    for line in out.splitlines():
        m = pat.match(line.strip())
        if m:
            s = json.loads(m.group(1))      # TLA+ string literal -> python str (TLC escapes like JSON)
            res.append(json.loads(s))
    return res


def ensure_gen(name, module, env_out="OUT", timeout=600, extra_env=None):
    """Generator modules evaluated by TLC once (cached in build/gen, regenerated when the spec changes)."""
    ensure_overrides()
    out = f"{BUILD}/gen/{name}"
    srcs = glob.glob(f"{SPEC}/*.tla") + [f"{SPEC}/overrides/BigNat.java"]
    if os.path.exists(out) and os.path.getmtime(out) >= newest_mtime(srcs):
        return out
    os.makedirs(f"{BUILD}/gen", exist_ok=True)
    tmp = out + ".tmp"
    env = {env_out: tmp}
    if extra_env:
        env.update(extra_env)
    o, rc, dt = run_tlc(module, env=env, timeout=timeout, tag="gen", xmx="3g")
    if rc != 0 or not os.path.exists(tmp):
        raise ToolError(f"generator {module} failed:\n{o[-3000:]}")
    os.replace(tmp, out)
    log(f"[gen] {name} by TLC in {dt:.1f}s")
    return out


def hiw_file(n=6):
    """Input SHAPING (never a verdict): elements w of Fq2 for which the Fq2 product w^2 * w drives the accumulator of the two-term
    sum of products (ImplMontSop's class 'two subtractions of q': u >= 2^256 + q) in its imaginary component.  The operands are
    correlated (w^2, w), so they are found by search (about one candidate in 4*10^5) with exact integer arithmetic; a Jacobian
    representative with z = 1/w makes normalisation compute exactly this product.  Deterministic, cached in build/gen."""
    out = f"{BUILD}/gen/hiw.json"
    if os.path.exists(out):
        return out
    with _HIW_LOCK:
        return _hiw_generate(out, n)


import threading
_HIW_LOCK = threading.Lock()


def _hiw_generate(out, n):
    if os.path.exists(out):
        return out
    import random
    q = 0xB640000002A3A6F1D603AB4FF58EC74521F2934B1A7AEEDBE56F9B27E351457D
    R = 1 << 256
    rinv, qinv = pow(R, -1, q), pow(q, -1, R)
    rnd = random.Random(0x6869)
    found, trials, t0 = [], 0, time.time()
    while len(found) < n and trials < 6_000_000:
        trials += 1
        b0, b1 = q - rnd.getrandbits(240), q - rnd.getrandbits(240)          # Montgomery components of w: just below q
        w0, w1 = b0 * rinv % q, b1 * rinv % q
        a0, a1 = (w0 * w0 - 2 * w1 * w1) % q * R % q, 2 * w0 * w1 % q * R % q   # Montgomery components of w^2
        t = a0 * b1 + a1 * b0
        m = (-t * qinv) % R
        if (t + m * q) >> 256 >= R + q:
            found.append(list(w1.to_bytes(32, "big") + w0.to_bytes(32, "big")))   # Fq2 byte order: imaginary part first
    os.makedirs(f"{BUILD}/gen", exist_ok=True)
    tmp = f"{out}.{os.getpid()}.tmp"
    with open(tmp, "w") as f:
        json.dump({"w": found, "trials": trials}, f)
    os.replace(tmp, out)
    log(f"[gen] hiw.json: {len(found)} elements in {trials} trials, {time.time() - t0:.1f}s")
    return out


# ------------------------------------------------------------------------------------------------ driver
def run_driver(profile, suite, out, seed, n, tier="quick", extra=(), timeout=1200):
    binp = build_harness(profile)
    os.makedirs(os.path.dirname(out), exist_ok=True)
    for f in (out, out + ".hang"):
        if os.path.exists(f):
            os.remove(f)
    cmd = [binp, suite, "--out", out, "--seed", str(seed), "--n", str(n), "--tier", tier] + list(extra)
    os.environ["SM9_VERIF_HIW"] = hiw_file()
    r = sh(cmd, timeout=timeout, check=False)
    hang = None
    if os.path.exists(out + ".hang"):
        hang = [json.loads(x) for x in open(out + ".hang") if x.strip()]
    if r.returncode == 101:
        # the driver itself panicked outside a recorded call: on the unchanged tree this never happens; it means that a library
        # call used to SHAPE an operand (decode a table entry, build a representative) misbehaved - reported as data, with what was recorded so far
        hang = (hang or []) + [{"op": "driver-abort", "suite": suite, "panic": True, "stderr": r.stdout[-1500:]}]
    elif r.returncode not in (0, 3):
        raise ToolError(f"driver {suite} failed ({r.returncode}):\n{r.stdout[-2000:]}")
    return hang


def split_trace(path, chunk):
    """Cut a stateless trace into files of at most `chunk` records."""
    parts = []
    with open(path) as f:
        lines = f.readlines()
    if len(lines) <= chunk:
        return [path], len(lines)
    k = 0
    for i in range(0, len(lines), chunk):
        p = f"{path}.{k}"
        with open(p, "w") as g:
            g.writelines(lines[i:i + chunk])
        parts.append(p)
        k += 1
    return parts, len(lines)


def validate_traces(paths, tag, timeout=900, module="Trace", xmx="2g"):
    """Run the trace specification over each file (one single-worker JVM per file, in parallel).
    Returns dict(records, consumed, bad=[{file, seq, op, why}], states, transitions, wall)."""
    res = {"records": 0, "consumed": 0, "bad": [], "states": 0, "distinct": 0, "files": len(paths), "cov": {}}

    def one(p):
        nrec = sum(1 for _ in open(p))
        if nrec == 0:
            return p, nrec, {"n": 0, "consumed": 0, "bad": []}, 1, 1, ""
        o, rc, dt = run_tlc(module, env={"TRACE": p}, timeout=timeout, tag=tag, xmx=xmx)
        done = tlc_user_lines(o, "DONE")
        sg, sd = tlc_counts(o)
        if not done:
            raise ToolError(f"trace validation produced no verdict for {p} (rc={rc}):\n{o[-2500:]}")
        return p, nrec, done[-1], sg, sd, o

    with cf.ThreadPoolExecutor(max_workers=MAXJVM) as ex:
        for p, nrec, d, sg, sd, o in ex.map(one, paths):
            res["records"] += nrec
            res["consumed"] += d["consumed"]
            res["states"] += sd
            res["distinct"] += sd
            if d["n"] != nrec or d["consumed"] != nrec:
                raise ToolError(f"vacuous trace run: {p}: {d['consumed']} of {nrec} records consumed")
            for b in d["bad"]:
                b["file"] = p
                res["bad"].append(b)
            for c, n in (d.get("cov") or {}).items():
                res["cov"][c] = res["cov"].get(c, 0) + n
    return res


def fetch_event(path, seq):
    with open(path) as f:
        for line in f:
            if f'"seq":{seq}' in line:
                e = json.loads(line)
                if e.get("seq") == seq:
                    return e
    return None


# ------------------------------------------------------------------------------------------------ findings / evidence
def load_known():
    p = f"{V}/known_findings.json"
    if not os.path.exists(p):
        return []
    return json.load(open(p)).get("findings", [])


def match_known(known, pid, ev):
    """A violation is a known finding iff a `known` entry of the same property names the same op and every
    field listed in its `match` equals the event's field."""
    for k in known:
        if k.get("status") != "known" or pid not in k.get("properties", [k.get("property")]):
            continue
        key = k.get("key", {})
        if key.get("op") and key["op"] != ev.get("op"):
            continue
        if all(ev.get(f) == v for f, v in key.get("match", {}).items()):
            return k
    return None


def write_evidence(pid, tier, seed, cov, wall, violations, assumptions):
    os.makedirs(f"{V}/evidence", exist_ok=True)
    ev = {
        "property_id": pid, "tier": tier, "seed": seed, "level": "model_checking",
        "coverage": cov, "assumptions": assumptions, "wall_s": round(wall, 2), "violations": violations,
    }
    with open(f"{V}/evidence/{pid}.json", "w") as f:
        json.dump(ev, f, indent=1)


def write_replay(pid, n, payload):
    d = f"{V}/evidence/replays"
    os.makedirs(d, exist_ok=True)
    p = f"{d}/{pid}-{n}.json"
    with open(p, "w") as f:
        json.dump(payload, f, indent=1)
    return p
