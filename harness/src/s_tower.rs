//! Suite "tower" (C17): the F_q^4 / F_q^12 engine, the final-exponentiation routines and the two Miller loops on
//! arbitrary elements, through the cfg(john_yu_sm9_core_verif) hooks.  Elements travel as bytes in the library's own
//! to_slice order (384 bytes for F_q^12, 128 for F_q^4).
use crate::common::*;
use crate::grp::*;
use crate::outs;
use crate::reps::*;
use crate::Args;
use rand::rngs::StdRng;
use rand::Rng;
use serde_json::{json, Value};
use sm9_core::verif_hooks::*;
use sm9_core::{Group, One, Zero, G1, G2};

fn raw(v: &[u8]) -> RawFq {
    RawFq::from_slice(v).expect("canonical limb")
}
fn fq2_from(v: &[u8]) -> RawFq2 {
    RawFq2::new(raw(&v[32..64]), raw(&v[0..32]))
}
fn fq4_from(v: &[u8]) -> Fq4 {
    Fq4::new(fq2_from(&v[64..128]), fq2_from(&v[0..64]))
}
fn fq12_from(v: &[u8]) -> Fq12 {
    Fq12::new(fq4_from(&v[256..384]), fq4_from(&v[128..256]), fq4_from(&v[0..128]))
}

/// a canonical limb (32 bytes below q): zero, one, boundary pool, random
fn limb(rng: &mut StdRng, pool: &Pool, sparse: bool) -> Vec<u8> {
    let c = rng.gen_range(0..10);
    if sparse && c < 7 {
        return vec![0u8; 32];
    }
    match c {
        0 => vec![0u8; 32],
        1 => { let mut v = vec![0u8; 32]; v[31] = 1; v }
        2 | 3 => pool.pick(rng),
        _ => sm9_core::Fq::from_slice(&rand_bytes(rng, 64)).unwrap().to_slice().to_vec(),
    }
}
fn elem_bytes(rng: &mut StdRng, pool: &Pool, nlimbs: usize) -> Vec<u8> {
    let class = rng.gen_range(0..11);
    if class >= 8 {
        // component-sparse: every F_q^2 component (pair of limbs) is zero with probability 1/2, the others are general
        let mut v = Vec::with_capacity(32 * nlimbs);
        for _ in 0..(nlimbs / 2).max(1) {
            let zero = rng.gen::<bool>();
            for _ in 0..2.min(nlimbs) {
                v.extend_from_slice(&if zero { vec![0u8; 32] } else { limb(rng, pool, false) });
            }
        }
        v.truncate(32 * nlimbs);
        return v;
    }
    let mut v = Vec::with_capacity(32 * nlimbs);
    for i in 0..nlimbs {
        let l = match class {
            0 => limb(rng, pool, true),                                          // sparse
            1 => if i + 1 == nlimbs { limb(rng, pool, false) } else { vec![0u8; 32] }, // subfield Fq (last limb = constant term)
            2 => if i + 2 >= nlimbs { limb(rng, pool, false) } else { vec![0u8; 32] }, // subfield Fq2
            3 => if i >= nlimbs.saturating_sub(4) { limb(rng, pool, false) } else { vec![0u8; 32] }, // subfield Fq4 (for Fq12)
            _ => limb(rng, pool, false),
        };
        v.extend_from_slice(&l);
    }
    v
}
/// algebraically special elements: roots of unity of the base field embedded in F_q^12, and elements of relative norm one
/// over a subfield, x = y^(q^k - 1) (k = 1, 2, 3, 4, 6), which are NOT in general unitary or cyclotomic
fn special(rng: &mut StdRng, pool: &Pool) -> Vec<u8> {
    if rng.gen_range(0..2) == 0 {
        // near-one: the element 1 (or -1, or 0) with ONE other F_q^2 component non-zero - shares components with a special constant
        let mut v = vec![0u8; 384];
        let c = match rng.gen_range(0..4) { 0 | 1 => sm9_core::Fq::one(), 2 => -sm9_core::Fq::one(), _ => sm9_core::Fq::zero() };
        v[352..384].copy_from_slice(&c.to_slice());
        let comp = rng.gen_range(0..6);                 // which F_q^2 component (6 of them, 64 bytes each)
        let l0 = limb(rng, pool, false);
        let l1 = if rng.gen() { limb(rng, pool, false) } else { vec![0u8; 32] };
        if comp == 5 {
            v[320..352].copy_from_slice(&l0);           // the imaginary part of the constant term
        } else {
            v[64 * comp..64 * comp + 32].copy_from_slice(&l0);
            v[64 * comp + 32..64 * comp + 64].copy_from_slice(&l1);
        }
        return v;
    }
    if rng.gen_range(0..3) == 0 {
        let w = crate::grp::cube_root_of_unity();
        let c = match rng.gen_range(0..4) { 0 => w, 1 => w * w, 2 => -sm9_core::Fq::one(), _ => -w };
        let mut v = vec![0u8; 384];
        v[352..384].copy_from_slice(&c.to_slice());
        return v;
    }
    let y = fq12_from(&elem_bytes(rng, pool, 12));
    match y.inverse() {
        None => vec![0u8; 384],
        Some(yi) => {
            let k = [1usize, 2, 3, 4, 6][rng.gen_range(0..5)];
            let fy = if k == 4 { y.frobenius_map(2).frobenius_map(2) } else { y.frobenius_map(k) };
            (fy * yi).to_slice().to_vec()
        }
    }
}

fn unitary(rng: &mut StdRng, pool: &Pool) -> Vec<u8> {
    let (a, bb) = (pick_scalar(rng, pool), pick_scalar(rng, pool));
    sm9_core::pairing(G1::one() * a, G2::one() * bb).to_slice().to_vec()
}

pub fn run(a: &Args, out: &mut Out) {
    let poolq = load_pool(&a.pool, "Fq");
    let poolr = load_pool(&a.pool, "Fr");
    let mut rng = rng_from(a.seed, "tower");
    let ex = chain_exponents();
    out.call("x.consts", json!({}), || {
        outs! {"s" => b(&ex[0].to_be_bytes()), "loopn" => b(&ex[1].to_be_bytes()), "a2" => b(&ex[2].to_be_bytes()), "a3" => b(&ex[3].to_be_bytes()),
               "nine" => b(&ex[4].to_be_bytes()), "loop_count" => b(&loop_count())}
    });
    let zero12 = vec![0u8; 384];
    let mut k = 0u64;
    while !out.full() {
        k += 1;
        // operand classes are drawn independently of the operation (k): unitary (pairing values) 1 in 5, else random / sparse / subfield
        let xa = match rng.gen_range(0..10) { 0 | 1 => unitary(&mut rng, &poolr), 2 | 3 => special(&mut rng, &poolq), _ => elem_bytes(&mut rng, &poolq, 12) };
        let xb = if rng.gen_range(0..7) == 0 { unitary(&mut rng, &poolr) } else { elem_bytes(&mut rng, &poolq, 12) };
        // EQUAL operands (the same value in two variables), or operands differing in one F_q coefficient only
        let xb = match rng.gen_range(0..12) {
            0 => xa.clone(),
            1 => { let mut t = xa.clone(); let l = 32 * rng.gen_range(0..12); t[l..l + 32].copy_from_slice(&limb(&mut rng, &poolq, false)[..32]); t }
            _ => xb,
        };
        // inversion, powering, sparse multiplication and the final exponentiations see the special elements half of the time
        let xa = if [0, 2, 4, 5, 8].contains(&(k % 10)) && rng.gen::<bool>() { special(&mut rng, &poolq) } else { xa };
        let (fa, fb) = (fq12_from(&xa), fq12_from(&xb));
        match k % 10 {
            0 | 1 => {
                // every fifth multiplication: jointly sparse operands (the same F_q^4 or F_q^2 coefficient vanishes in both)
                let (xa, xb) = if k % 50 < 10 && k % 10 == 1 {
                    let (mut ta, mut tb) = (xa.clone(), xb.clone());
                    let (lo, hi) = if rng.gen() { let l = 128 * rng.gen_range(0..3); (l, l + 128) } else { let l = 64 * rng.gen_range(0..6); (l, l + 64) };
                    for x in ta[lo..hi].iter_mut() { *x = 0; }
                    for x in tb[lo..hi].iter_mut() { *x = 0; }
                    (ta, tb)
                } else { (xa.clone(), xb.clone()) };
                let (fa, fb) = (fq12_from(&xa), fq12_from(&xb));
                out.call("x.fq12.mul", json!({"a": b(&xa), "b": b(&xb)}), || outs! {"out" => b(&(fa * fb).to_slice()), "sqr" => b(&fa.squared().to_slice())});
            }
            2 => {
                out.call("x.fq12.inv", json!({"a": b(&xa)}), || outs! {"out" => opt_bytes(fa.inverse().map(|x| x.to_slice()))});
                if k % 20 == 2 {
                    out.call("x.fq12.inv", json!({"a": b(&zero12)}), || outs! {"out" => opt_bytes(Fq12::zero().inverse().map(|x| x.to_slice()))});
                }
            }
            3 => {
                for p in [1usize, 2, 3, 6] {
                    out.call("x.fq12.frob", json!({"a": b(&xa), "k": p}), || outs! {"out" => b(&fa.frobenius_map(p).to_slice())});
                }
            }
            4 => {
                // sparse multiplication: b = (c0 arbitrary, c1 = 0, c2 = (0, *))
                let mut sb = vec![0u8; 384];
                let c0 = elem_bytes(&mut rng, &poolq, 4);
                let c21 = elem_bytes(&mut rng, &poolq, 2);
                sb[256..384].copy_from_slice(&c0);      // c0
                sb[0..64].copy_from_slice(&c21);        // c2.c1
                let fs = fq12_from(&sb);
                out.call("x.fq12.mul015", json!({"a": b(&xa), "b": b(&sb)}), || outs! {"out" => b(&fa.mul_015(&fs).to_slice())});
            }
            5 => {
                let e: u128 = match rng.gen_range(0..8) {
                    0 => ex[0], 1 => ex[2], 2 => ex[3], 3 => ex[4], 4 => rng.gen_range(0..4), 5 => 1u128 << rng.gen_range(0..127), _ => rng.gen(),
                };
                out.call("x.fq12.pow", json!({"a": b(&xa), "e": b(&e.to_be_bytes())}), || outs! {"out" => b(&fq12_pow(&fa, e).to_slice())});
            }
            6 => {
                let s4 = elem_bytes(&mut rng, &poolq, 4);
                let f4 = fq4_from(&s4);
                out.call("x.fq12.scale", json!({"a": b(&xa), "s": b(&s4)}), || outs! {"out" => b(&fa.scale(&f4).to_slice()), "mnr" => b(&fa.mul_by_nonresidue().to_slice())});
            }
            7 => {
                // F_q^4
                let (mut ya, mut yb) = (elem_bytes(&mut rng, &poolq, 4), elem_bytes(&mut rng, &poolq, 4));
                if k % 30 == 17 && !poolq.hi.is_empty() {
                    // carry classes of sum_of_products<4>: every Montgomery residue just below q (or small, so that -2a is high)
                    let pick = |rng: &mut StdRng, hi: bool| -> Vec<u8> { let l = if hi { &poolq.hi } else { &poolq.lo }; l[rng.gen_range(0..l.len())].clone() };
                    ya.clear();
                    yb.clear();
                    for j in 0..4 {
                        let high_a = j == 3 || rng.gen::<bool>();
                        ya.extend_from_slice(&pick(&mut rng, high_a));
                        yb.extend_from_slice(&pick(&mut rng, true));
                    }
                }
                // every fourth round: b = the conjugate of a over F_q^2 (c1 negated): the v-coefficient of the product vanishes
                let yb = if k % 40 == 7 {
                    let mut t = ya.clone();
                    for l in 0..2 {
                        let neg = (-sm9_core::Fq::from_slice(&ya[32 * l..32 * l + 32]).unwrap()).to_slice();
                        t[32 * l..32 * l + 32].copy_from_slice(&neg);
                    }
                    t
                } else { yb };
                let yb = if k % 80 == 47 { ya.clone() } else { yb };       // equal operands
                // jointly sparse operands: the SAME F_q^2 coefficient (or the same F_q limb) vanishes in both
                let (ya, yb) = if k % 20 == 17 {
                    let (mut ta, mut tb) = (ya.clone(), yb.clone());
                    let (lo, hi) = match rng.gen_range(0..4) { 0 | 1 => (64, 128), 2 => (0, 64), _ => { let l = 32 * rng.gen_range(0..4); (l, l + 32) } };
                    for x in ta[lo..hi].iter_mut() { *x = 0; }
                    for x in tb[lo..hi].iter_mut() { *x = 0; }
                    (ta, tb)
                } else { (ya, yb) };
                let (ga, gb) = (fq4_from(&ya), fq4_from(&yb));
                out.call("x.fq4.mul", json!({"a": b(&ya), "b": b(&yb)}), || {
                    outs! {"out" => b(&(ga * gb).to_slice()), "sqr" => b(&ga.squared().to_slice()), "inv" => opt_bytes(ga.inverse().map(|x| x.to_slice())),
                           "mnr" => b(&ga.mul_by_nonresidue().to_slice())}
                });
                let mut y1 = yb.clone();
                for x in y1[64..128].iter_mut() { *x = 0; }      // c0 = 0
                let g1 = fq4_from(&y1);
                out.call("x.fq4.mul1", json!({"a": b(&ya), "b": b(&y1)}), || outs! {"out" => b(&ga.mul_1(&g1).to_slice())});
                for code in [10usize, 11, 12, 21, 22, 30, 31, 32] {
                    out.call("x.fq4.frob", json!({"a": b(&ya), "code": code}), || outs! {"out" => b(&ga.frobenius_map(code).to_slice())});
                }
            }
            8 => {
                // both final exponentiations on an arbitrary (generally non-unitary) element
                out.call("x.fe", json!({"a": b(&xa)}), || {
                    outs! {"fe1" => opt_bytes(fa.final_exponentiation().map(|x| x.to_slice())), "fe2" => opt_bytes(fa.final_exp().map(|x| x.to_slice()))}
                });
                if k % 40 == 8 {
                    out.call("x.fe", json!({"a": b(&zero12)}), || {
                        outs! {"fe1" => opt_bytes(Fq12::zero().final_exponentiation().map(|x| x.to_slice())), "fe2" => opt_bytes(Fq12::zero().final_exp().map(|x| x.to_slice()))}
                    });
                }
            }
            _ => {
                // the two Miller loops on affine inputs
                let (ka, kb) = (loop { let s = pick_scalar(&mut rng, &poolr); if !s.is_zero() { break s; } }, loop { let s = pick_scalar(&mut rng, &poolr); if !s.is_zero() { break s; } });
                let (mut p, mut q) = (G1::one() * ka, G2::one() * kb);
                p.normalize();
                q.normalize();
                out.call("x.miller", json!({"p": p.jac(), "q": q.jac(), "ka": b(&ka.to_slice()), "kb": b(&kb.to_slice())}), || {
                    outs! {"m1" => b(&miller_g2(&p, &q).to_slice()), "m2" => b(&miller_prepared(&p, &q).to_slice())}
                });
            }
        }
    }
    let _ = Fq12::one();
}
