//! Suites on group elements, all stateless: every event logs its operands as Jacobian triples (through the public
//! accessors x(), y(), z()) and the specification abstracts them itself.
//!   group  (C04 C05 C15)  add / sub / neg / mul / rmul / eq / is_zero / normalize / affine conversion
//!   encode (C10)          the three encoders on every representation, decode(encode)
use crate::common::*;
use crate::grp::*;
use crate::outs;
use crate::reps::*;
use crate::Args;
use rand::rngs::StdRng;
use rand::Rng;
use serde_json::{json, Value};
use sm9_core::*;

/// a non-identity group element with known discrete logarithm, in representation `tag`
fn elem<G: Grp>(rng: &mut StdRng, pool: &Pool, tag: &str) -> (G, Fr) {
    loop {
        let k = pick_scalar(rng, pool);
        if k.is_zero() {
            continue;
        }
        let p = G::gen() * k;
        return (G::rep(rng, p, tag), k);
    }
}
/// the result as the LIBRARY normalises it: its raw encoding (None for the identity, whose encoding is not specified)
fn enc_obs<G: Grp>(r: &G) -> Value {
    if r.is_zero_() { none() } else { some(b(&r.enc("raw"))) }
}
fn zrep<G: Grp>(rng: &mut StdRng) -> G {
    let t = pick_ztag(rng);
    G::rep(rng, G::zero(), t)
}
fn any_elem<G: Grp>(rng: &mut StdRng, pool: &Pool) -> (G, Fr) {
    if rng.gen_range(0..8) == 1 {
        // a base whose raw y is +-1/2: doubling it returns the base's own z (or -z), so that the next addition of the
        // double-and-add loop sees two non-normalised operands with a common z
        for _ in 0..8 {
            let (e, ke) = elem::<G>(rng, pool, "A");
            if let Some(h) = e.half_y(rng.gen()) {
                return (h, ke);
            }
        }
    }
    if rng.gen_range(0..8) == 0 {
        (zrep::<G>(rng), Fr::zero())
    } else {
        { let t = pick_tag(rng); elem::<G>(rng, pool, t) }
    }
}

fn group_round<G: Grp>(rng: &mut StdRng, pool: &Pool, out: &mut Out, k: u64, focus: &str) {
    let g = G::NAME;
    // relation between the operands: independent, equal, opposite, identity on either side, doubled
    let (ta, tb) = (pick_tag(rng), pick_tag(rng));
    let (a, ka) = elem::<G>(rng, pool, ta);
    let (bb, kb): (G, Fr) = match k % 8 {
        0 => (G::rep(rng, a, tb), ka),                       // equal point, independent representative
        1 => (G::rep(rng, -a, tb), -ka),                     // opposite
        2 => (zrep::<G>(rng), Fr::zero()),
        3 => (G::rep(rng, a + a, tb), ka + ka),              // doubled
        4 => {
            // related by the order-3 endomorphism of the j = 0 curve: (w x, +-y) - same y up to sign, different point
            let e = if rng.gen() { a.endo() } else { a.endo().endo() };
            let e = if rng.gen() { -e } else { e };
            (if rng.gen() { e } else { G::rep(rng, e, tb) }, Fr::zero())
        }
        5 => {
            // an unrelated point presented so that one RAW coordinate coincides with a's (common z != 1, equal raw x, equal raw y)
            let (e, ke) = elem::<G>(rng, pool, tb);
            let which = rng.gen_range(0..4usize).min(2);
            (e.share_coord(&a, which).unwrap_or(e), ke)
        }
        _ => elem::<G>(rng, pool, tb),
    };
    let nodl = k % 8 == 4;
    let (a, bb, ka, kb) = if k % 8 == 2 && rng.gen() { (bb, a, kb, ka) } else { (a, bb, ka, kb) };
    let (sa, sb) = (ka.to_slice(), kb.to_slice());
    let opn = ["g.add", "g.sub"][rng.gen_range(0..2)];
    if focus != "mul" && (focus != "eq" || k % 4 == 0) {
    out.call(opn, json!({"G": g, "a": a.jac(), "b": bb.jac(), "ka": b(&sa), "kb": b(&sb), "nodl": nodl}), || {
        let r = if opn == "g.add" { a + bb } else { a - bb };
        outs! {"out" => r.jac(), "isz" => Value::Bool(r.is_zero_()), "enc" => enc_obs(&r)}
    });
    }
    if focus != "mul" {
    out.call("g.eq", json!({"G": g, "a": a.jac(), "b": bb.jac()}), || {
        outs! {"out" => Value::Bool(a == bb), "rev" => Value::Bool(bb == a), "refl" => Value::Bool(a == a)}
    });
    }
    let sel = match focus {
        "law" => [0u64, 0, 1, 2, 0, 0][(k % 6) as usize],
        "mul" => [3u64, 4, 5, 3, 4, 5][(k % 6) as usize],
        "eq" => [1u64, 2, 1, 2, 0, 1][(k % 6) as usize],
        _ => k % 6,
    };
    match sel {
        0 => {
            out.call("g.neg", json!({"G": g, "a": a.jac()}), || { let r = -a; outs! {"out" => r.jac(), "enc" => enc_obs(&r)} });
            let z = zrep::<G>(rng);
            out.call("g.neg", json!({"G": g, "a": z.jac()}), || { let r = -z; outs! {"out" => r.jac(), "enc" => enc_obs(&r)} });
        }
        1 => {
            let (p, _) = any_elem::<G>(rng, pool);
            out.call("g.normalize", json!({"G": g, "a": p.jac()}), || {
                let mut q = p;
                q.normalize_();
                outs! {"out" => q.jac(), "isz" => Value::Bool(q.is_zero_())}
            });
        }
        2 => {
            let (p, _) = any_elem::<G>(rng, pool);
            out.call("g.to_affine", json!({"G": g, "a": p.jac()}), || {
                let r = match p.affine() {
                    Some((x, y)) => json!({"t": "some", "v": [b(&x), b(&y)]}),
                    None => json!({"t": "none", "v": []}),
                };
                // and back: From<Affine> must give the same point
                let back = match p.affine() {
                    Some((x, y)) => opt_jac(G::affine_new(&x, &y)),
                    None => none(),
                };
                outs! {"out" => r, "back" => back}
            });
        }
        3 | 4 => {
            // scalar multiplication, both operand orders
            let s = pick_scalar(rng, pool);
            let ss = s.to_slice();
            let (p, _) = any_elem::<G>(rng, pool);
            let opm = if rng.gen() { "g.mul" } else { "g.rmul" };
            out.call(opm, json!({"G": g, "a": p.jac(), "k": b(&ss)}), || {
                let r = if opm == "g.mul" { p * s } else { G::rmul(s, p) };
                outs! {"out" => r.jac(), "isz" => Value::Bool(r.is_zero_()), "enc" => enc_obs(&r)}
            });
        }
        _ => {
            // module laws as relations between recorded results: (s+t)P = sP + tP, (st)P = s(tP)
            let (s, t) = (pick_scalar(rng, pool), pick_scalar(rng, pool));
            let (p, _) = any_elem::<G>(rng, pool);
            out.call("g.modlaws", json!({"G": g, "a": p.jac(), "s": b(&s.to_slice()), "t": b(&t.to_slice())}), || {
                let q = p * s;
                let mut qn = q;
                qn.normalize_();
                outs! {"mix1" => (q + qn).jac(), "mix2" => (qn + q).jac(), "s2" => b(&(s + s).to_slice()),
                       "spt" => (p * (s + t)).jac(), "sp_tp" => (p * s + p * t).jac(),
                       "st" => (p * (s * t)).jac(), "s_tp" => ((p * t) * s).jac(),
                       "zero" => (p * Fr::zero()).jac(), "one" => (p * Fr::one()).jac(), "m1" => (p * (-Fr::one())).jac(),
                       "rm1p_p" => (p * (-Fr::one()) + p).jac()}
            });
        }
    }
    if (focus == "law" && k % 4 == 1) || k % 16 == 5 {
        // commutativity / associativity / neutrality on three elements
        let (c, _) = any_elem::<G>(rng, pool);
        out.call("g.laws", json!({"G": g, "a": a.jac(), "b": bb.jac(), "c": c.jac()}), || {
            // the library's own == on the two sides of each law (the sides usually differ in representative: z and -z, ...)
            let eqs = (a + bb) == (bb + a) && ((a + bb) + c) == (a + (bb + c)) && (a - bb) == -(bb - a) && (a + G::zero()) == a
                && ((a + bb) - bb) == a && (a + bb) == (bb + a) + G::zero();
            outs! {"ab" => (a + bb).jac(), "ba" => (bb + a).jac(), "ab_c" => ((a + bb) + c).jac(), "a_bc" => (a + (bb + c)).jac(),
                   "a0" => (a + G::zero()).jac(), "z0a" => (G::zero() + a).jac(), "eqs" => Value::Bool(eqs)}
        });
    }
}

pub fn run_group(a: &Args, out: &mut Out) {
    let pool = load_pool(&a.pool, "Fr");
    let mut rng = rng_from(a.seed, "group");
    if a.focus == "mul" {
        // sweep: scalars whose CANONICAL limbs come from {0, 1, 2^63, 2^64-1, r_i, r_i +- 1} (quick: one in eight, rotating with the seed)
        let (p1, p2) = (G1::one() * rand_fr(&mut rng), G2::one() * rand_fr(&mut rng));
        for (i, v) in canon_patterns(&r_modulus()).iter().enumerate() {
            if (i as u64 + a.seed % 1000003) % (if a.tier == "thorough" { 2 } else { 8 }) != 0 { continue; }
            let s = Fr::from_slice(v).unwrap();
            let ss = s.to_slice();
            if i % 5 == 0 {
                out.call("g.rmul", json!({"G": "G2", "a": p2.jac(), "k": b(&ss)}), || { let r = s * p2; outs! {"out" => r.jac(), "isz" => Value::Bool(r.is_zero_()), "enc" => enc_obs(&r)} });
            } else {
                out.call("g.mul", json!({"G": "G1", "a": p1.jac(), "k": b(&ss)}), || { let r = p1 * s; outs! {"out" => r.jac(), "isz" => Value::Bool(r.is_zero_()), "enc" => enc_obs(&r)} });
            }
        }
        // sweep: every scalar whose Montgomery representation is a tiny integer or has a single non-zero limb
        let (p1, p2) = (G1::one() * rand_fr(&mut rng), G2::one() * rand_fr(&mut rng));
        for (i, v) in pool.lo.iter().enumerate() {
            let s = Fr::from_slice(v).unwrap();
            let ss = s.to_slice();
            out.call("g.mul", json!({"G": "G1", "a": p1.jac(), "k": b(&ss)}), || { let r = p1 * s; outs! {"out" => r.jac(), "isz" => Value::Bool(r.is_zero_()), "enc" => enc_obs(&r)} });
            if i % 3 == 0 {
                out.call("g.rmul", json!({"G": "G2", "a": p2.jac(), "k": b(&ss)}), || { let r = s * p2; outs! {"out" => r.jac(), "isz" => Value::Bool(r.is_zero_()), "enc" => enc_obs(&r)} });
            }
        }
    }
    {
        // arithmetic boundary families pushed through the group API: crafted G1 representatives whose normalisation performs a
        // designated Montgomery product (unknown discrete logarithm: the specification abstracts the triple itself), and
        // representatives whose 1/z (G1) or Re z (G2) has a designated pattern
        let poolq = load_pool(&a.pool, "Fq");
        let thorough = a.tier == "thorough";
        let crafted = crafted_points(&poolq, a.seed, if thorough { 600 } else { 240 });
        let zs = inv_pattern_zs(&poolq, a.seed, if thorough { 900 } else { 400 });
        let mut reps1: Vec<G1> = crafted;
        // affine points one of whose coordinates is itself a pattern value (doubling squares / triples / doubles the coordinates)
        reps1.extend(coord_points(&poolq, a.seed, if thorough { 400 } else { 160 }));
        reps1.extend(sq_coord_points(&poolq, a.seed, if thorough { 200 } else { 70 }));
        let eqp = eq_crafted(&poolq, a.seed, if thorough { 600 } else { 240 });
        let mut reps2: Vec<G2> = Vec::new();
        for (i, z) in zs.into_iter().enumerate() {
            if i % 3 == 2 {
                let mut n = G2::one() * rand_fr(&mut rng);
                n.normalize();
                reps2.push(g2_scale(n, Fq2::new(z.inverse().unwrap(), if i % 2 == 0 { Fq::zero() } else { rand_fq_nonzero(&mut rng) })));
            } else {
                let mut n = G1::one() * rand_fr(&mut rng);
                n.normalize();
                reps1.push(g1_scale(n, z));
            }
        }
        // G2: z = 1 / (a + b u) with both components Montgomery-boundary pool values (Fq2 inversion and squaring add, subtract and
        // double these components)
        for i in 0..(if thorough { 500 } else { 150 }) {
            let (pa, pb) = (Fq::from_slice(&poolq.vals[(i * 97 + 13 * (a.seed % 1000003) as usize) % poolq.vals.len()]).unwrap(), Fq::from_slice(&poolq.vals[(i * 61 + 5) % poolq.vals.len()]).unwrap());
            if let Some(l) = fq2_inv(Fq2::new(pa, pb)) {
                let mut n = G2::one() * rand_fr(&mut rng);
                n.normalize();
                reps2.push(g2_scale(n, if i % 3 == 0 { Fq2::new(pa, pb) } else { l }));
            }
        }
        fn through<G: Grp>(rng: &mut StdRng, pool: &Pool, out: &mut Out, focus: &str, p: G) {
            let g = G::NAME;
            match focus {
                "mul" => {
                    let s = pick_scalar(rng, pool);
                    let ss = s.to_slice();
                    out.call("g.mul", json!({"G": g, "a": p.jac(), "k": b(&ss)}), || { let r = p * s; outs! {"out" => r.jac(), "isz" => Value::Bool(r.is_zero_()), "enc" => enc_obs(&r)} });
                }
                "eq" => {
                    out.call("g.normalize", json!({"G": g, "a": p.jac()}), || { let mut q = p; q.normalize_(); outs! {"out" => q.jac(), "isz" => Value::Bool(q.is_zero_())} });
                    let mut n = p;
                    n.normalize_();
                    out.call("g.eq", json!({"G": g, "a": p.jac(), "b": n.jac()}), || outs! {"out" => Value::Bool(p == n), "rev" => Value::Bool(n == p), "refl" => Value::Bool(p == p)});
                }
                _ => {
                    let tb = pick_tag(rng);
                    let (bb, kb) = elem::<G>(rng, pool, tb);
                    let zero = [0u8; 32];
                    let opn = ["g.add", "g.sub"][rng.gen_range(0..2)];
                    let (x, y) = if rng.gen() { (p, bb) } else { (bb, p) };
                    out.call(opn, json!({"G": g, "a": x.jac(), "b": y.jac(), "ka": b(&zero), "kb": b(&kb.to_slice()), "nodl": true}), || {
                        let r = if opn == "g.add" { x + y } else { x - y };
                        outs! {"out" => r.jac(), "isz" => Value::Bool(r.is_zero_()), "enc" => enc_obs(&r)}
                    });
                    out.call("g.neg", json!({"G": g, "a": p.jac()}), || { let r = -p; outs! {"out" => r.jac(), "enc" => enc_obs(&r)} });
                    // the same value added to itself (doubling) and subtracted from itself
                    let opn = if rng.gen_range(0..4) == 0 { "g.sub" } else { "g.add" };
                    out.call(opn, json!({"G": g, "a": p.jac(), "b": p.jac(), "ka": b(&zero), "kb": b(&zero), "nodl": true}), || {
                        let r = if opn == "g.add" { p + p } else { p - p };
                        outs! {"out" => r.jac(), "isz" => Value::Bool(r.is_zero_()), "enc" => enc_obs(&r)}
                    });
                }
            }
        }
        let f = if a.focus == "mul" || a.focus == "eq" { a.focus.as_str() } else { "law" };
        // two representatives of one point whose comparison / addition multiplies a designated operand pair
        for (p, q) in eqp {
            let zero = [0u8; 32];
            if f == "eq" {
                out.call("g.eq", json!({"G": "G1", "a": p.jac(), "b": q.jac()}), || outs! {"out" => Value::Bool(p == q), "rev" => Value::Bool(q == p), "refl" => Value::Bool(q == q)});
            } else if f == "law" {
                let opn = ["g.add", "g.sub"][rng.gen_range(0..2)];
                let (x, y) = if rng.gen() { (p, q) } else { (q, p) };
                out.call(opn, json!({"G": "G1", "a": x.jac(), "b": y.jac(), "ka": b(&zero), "kb": b(&zero), "nodl": true}), || {
                    let r = if opn == "g.add" { x + y } else { x - y };
                    outs! {"out" => r.jac(), "isz" => Value::Bool(r.is_zero_()), "enc" => enc_obs(&r)}
                });
            }
        }
        for p in reps1 { through::<G1>(&mut rng, &pool, out, f, p); }
        for p in reps2 { through::<G2>(&mut rng, &pool, out, f, p); }
        // one representative of EVERY rescaling class, with the small scalars (mul), an identity on either side (law), or normalised (eq)
        fn class_sweep<G: Grp>(rng: &mut StdRng, pool: &Pool, out: &mut Out, focus: &str) {
            let g = G::NAME;
            for sel in 0..G::NSEL {
                let (n, kn) = elem::<G>(rng, pool, "A");
                let p = G::rep_class(rng, n, sel);
                match focus {
                    "mul" => {
                        for s in [Fr::one(), Fr::one() + Fr::one(), -Fr::one(), Fr::zero()] {
                            let ss = s.to_slice();
                            let opm = if sel % 2 == 0 { "g.mul" } else { "g.rmul" };
                            out.call(opm, json!({"G": g, "a": p.jac(), "k": b(&ss)}), || {
                                let r = if opm == "g.mul" { p * s } else { G::rmul(s, p) };
                                outs! {"out" => r.jac(), "isz" => Value::Bool(r.is_zero_()), "enc" => enc_obs(&r)}
                            });
                        }
                    }
                    "eq" => {
                        out.call("g.normalize", json!({"G": g, "a": p.jac()}), || { let mut q = p; q.normalize_(); outs! {"out" => q.jac(), "isz" => Value::Bool(q.is_zero_())} });
                        out.call("g.eq", json!({"G": g, "a": p.jac(), "b": n.jac()}), || outs! {"out" => Value::Bool(p == n), "rev" => Value::Bool(n == p), "refl" => Value::Bool(p == p)});
                    }
                    _ => {
                        let z = zrep::<G>(rng);
                        let (sk, zk) = (kn.to_slice(), [0u8; 32]);
                        for (x, y, kx, ky) in [(p, z, &sk[..], &zk[..]), (z, p, &zk[..], &sk[..]), (p, n, &sk[..], &sk[..])] {
                            let opn = ["g.add", "g.sub"][rng.gen_range(0..2)];
                            out.call(opn, json!({"G": g, "a": x.jac(), "b": y.jac(), "ka": b(kx), "kb": b(ky), "nodl": false}), || {
                                let r = if opn == "g.add" { x + y } else { x - y };
                                outs! {"out" => r.jac(), "isz" => Value::Bool(r.is_zero_()), "enc" => enc_obs(&r)}
                            });
                        }
                    }
                }
            }
        }
        class_sweep::<G1>(&mut rng, &pool, out, f);
        class_sweep::<G2>(&mut rng, &pool, out, f);
    }
    if a.focus == "eq" {
        // sweep: every sparse-Montgomery pool value as z (G1), as the real or the imaginary part of z (G2), through normalize
        let poolq = load_pool(&a.pool, "Fq");
        for (i, l) in sparse_mont(&poolq.vals).into_iter().enumerate() {
            // G1: every value (the Fq inversion sees z itself); G2: half of them (its inversion sees the norm of z)
            let mut n = G1::one() * rand_fr(&mut rng);
            n.normalize();
            let p = g1_scale(n, l);
            out.call("g.normalize", json!({"G": "G1", "a": p.jac()}), || { let mut q = p; q.normalize(); outs! {"out" => q.jac(), "isz" => Value::Bool(q.is_zero())} });
            if a.tier == "thorough" || (i as u64 + a.seed % 1000003) % 2 == 0 {
                let mut n = G2::one() * rand_fr(&mut rng);
                n.normalize();
                let p = g2_scale(n, if i % 4 < 2 { Fq2::new(l, Fq::zero()) } else { Fq2::new(Fq::zero(), l) });
                out.call("g.normalize", json!({"G": "G2", "a": p.jac()}), || { let mut q = p; q.normalize(); outs! {"out" => q.jac(), "isz" => Value::Bool(q.is_zero())} });
            }
        }
    }
    let (mut k1, mut k2) = (0u64, 0u64);
    // share of G2 events is lower: the specification's Fq2 arithmetic is slower
    while !out.full() {
        if rng.gen_range(0..3) == 0 {
            k2 += 1;
            group_round::<G2>(&mut rng, &pool, out, k2, &a.focus);
        } else {
            k1 += 1;
            group_round::<G1>(&mut rng, &pool, out, k1, &a.focus);
        }
    }
    // remaining public surface: curve coefficients, coordinate setters (equivalent to the constructor), affine setters
    {
        let (p1, _) = elem::<G1>(&mut rng, &pool, "J");
        let (p2, _) = elem::<G2>(&mut rng, &pool, "J");
        out.call("g.api", json!({"a1": p1.jac(), "a2": p2.jac()}), || {
            let mut s1 = <G1 as Grp>::zero();
            s1.set_x(p1.x()); s1.set_y(p1.y()); s1.set_z(p1.z());
            let mut s2 = <G2 as Grp>::zero();
            s2.set_x(p2.x()); s2.set_y(p2.y()); s2.set_z(p2.z());
            let mut a1 = AffineG1::from_jacobian(G1::one()).unwrap();
            let t1 = AffineG1::from_jacobian(p1).unwrap();
            a1.set_x(t1.x()); a1.set_y(t1.y());
            let mut a2 = AffineG2::from_jacobian(G2::one()).unwrap();
            let t2 = AffineG2::from_jacobian(p2).unwrap();
            a2.set_x(t2.x()); a2.set_y(t2.y());
            outs! {"b1" => b(&G1::b().to_slice()), "b2" => b(&G2::b().to_slice()), "s1" => s1.jac(), "s2" => s2.jac(),
                   "s1eq" => Value::Bool(s1 == p1), "s2eq" => Value::Bool(s2 == p2),
                   "af1" => G1::from(a1).jac(), "af2" => G2::from(a2).jac()}
        });
    }
    // identity-only corner cases
    for (za, zb) in [("Z0", "Z0"), ("Z0", "ZN"), ("ZN", "Z0"), ("ZN", "ZN"), ("S", "ZN")] {
        let (x, y) = (G1::rep(&mut rng, <G1 as Grp>::zero(), za), G1::rep(&mut rng, <G1 as Grp>::zero(), zb));
        out.call("g.add", json!({"G": "G1", "a": x.jac(), "b": y.jac(), "ka": b(&[0u8; 32]), "kb": b(&[0u8; 32])}), || {
            outs! {"out" => (x + y).jac(), "isz" => Value::Bool((x + y).is_zero_())}
        });
        out.call("g.eq", json!({"G": "G1", "a": x.jac(), "b": y.jac()}), || {
            outs! {"out" => Value::Bool(x == y), "rev" => Value::Bool(y == x), "refl" => Value::Bool(x == x)}
        });
        let (x, y) = (G2::rep(&mut rng, <G2 as Grp>::zero(), za), G2::rep(&mut rng, <G2 as Grp>::zero(), zb));
        out.call("g.sub", json!({"G": "G2", "a": x.jac(), "b": y.jac(), "ka": b(&[0u8; 32]), "kb": b(&[0u8; 32])}), || {
            outs! {"out" => (x - y).jac(), "isz" => Value::Bool((x - y).is_zero_())}
        });
        out.call("g.eq", json!({"G": "G2", "a": x.jac(), "b": y.jac()}), || {
            outs! {"out" => Value::Bool(x == y), "rev" => Value::Bool(y == x), "refl" => Value::Bool(x == x)}
        });
    }
}

fn encode_round<G: Grp>(rng: &mut StdRng, pool: &Pool, out: &mut Out) {
    let g = G::NAME;
    let (p, k) = elem::<G>(rng, pool, "A");
    let sk = k.to_slice();
    // both parities of y: P and -P; every representation of each
    for q in [p, -p] {
        for tag in ["A", "J", "S"] {
            let r = G::rep(rng, q, tag);
            for fmt in ["raw", "unc", "cmp"] {
                let anchor = tag == "A" && fmt == "raw";
                out.call("g.encode", json!({"G": g, "a": r.jac(), "fmt": fmt, "k": b(&sk), "negated": q != p, "anchor": anchor}), || {
                    let e = r.enc(fmt);
                    let d = G::dec(&e, fmt);
                    outs! {"out" => b(&e), "dec" => opt_jac(d), "deceq" => Value::Bool(d.map(|x| x == r).unwrap_or(false))}
                });
            }
        }
    }
}

/// the three encoders on every representation of one point (no discrete logarithm known: no anchor)
fn encode_point<G: Grp>(rng: &mut StdRng, out: &mut Out, p: G) {
    for q in [p, -p] {
        for tag in ["A", "J", "S"] {
            let r = G::rep(rng, q, tag);
            for fmt in ["raw", "unc", "cmp"] {
                out.call("g.encode", json!({"G": G::NAME, "a": r.jac(), "fmt": fmt, "k": b(&[0u8; 32]), "negated": q != p, "anchor": false}), || {
                    let e = r.enc(fmt);
                    let d = G::dec(&e, fmt);
                    outs! {"out" => b(&e), "dec" => opt_jac(d), "deceq" => Value::Bool(d.map(|x| x == r).unwrap_or(false))}
                });
            }
        }
    }
}

pub fn run_encode(a: &Args, out: &mut Out) {
    let pool = load_pool(&a.pool, "Fr");
    let mut rng = rng_from(a.seed, "encode");
    // points with SHORT coordinates (leading zero bytes in the big-endian field encoding): G1 points with a small x ...
    let mut found = 0;
    for xi in 0u8..60 {
        let mut v = vec![2u8];
        v.extend_from_slice(&[0u8; 31]);
        v.push(xi);
        if let Some(p) = <G1 as Grp>::dec(&v, "cmp") {
            encode_point::<G1>(&mut rng, out, p);
            found += 1;
            if found >= 3 { break; }
        }
    }
    // G1 points with x = q - i, and with a tiny or near-q Y coordinate (x = cbrt(y^2 - 5)): both signs of y through every format
    let mut found = 0;
    for i in 1u8..60 {
        if found >= 4 { break; }
        let mut sm = [0u8; 32];
        sm[31] = i;
        let si = Fq::from_slice(&sm).unwrap();
        let mut v = vec![2u8 + (i & 1)];
        v.extend_from_slice(&(-si).to_slice());
        if let Some(p) = <G1 as Grp>::dec(&v, "cmp") {
            encode_point::<G1>(&mut rng, out, p);
            found += 1;
        }
    }
    let mut found = 0;
    for i in 1u8..60 {
        if found >= 6 { break; }
        let mut sm = [0u8; 32];
        sm[31] = i;
        let y = if i % 2 == 0 { Fq::from_slice(&sm).unwrap() } else { -Fq::from_slice(&sm).unwrap() };
        if let Some(x) = fq_cbrt(y * y - G1::b()) {
            if let Some(p) = <G1 as Grp>::affine_new(&x.to_slice(), &y.to_slice()) {
                encode_point::<G1>(&mut rng, out, p);
                found += 1;
            }
        }
    }
    // G1 points whose x is a CONVERSION-quotient value (TLC family cvt: the Montgomery conversion of x, into or out of Montgomery form,
    // has prescribed quotient digits, zeros at every position).  The field element is built as (x - 1) + 1, NOT from the bytes of x, so
    // that its value is x even if the conversion of exactly these bytes is what misbehaves; the encoder converts it out, the decoder
    // converts the bytes back in.
    {
        let poolq = load_pool(&a.pool, "Fq");
        let fmts = ["raw", "unc", "cmp"];
        let mut n = 0usize;
        let mut v33 = [0u8; 33];
        v33[0] = 1;
        let rr = Fq::from_slice(&v33).unwrap();
        let zero_limb = |vb: &Vec<u8>| -> bool { (Fq::from_slice(vb).unwrap() * rr).to_slice().chunks(8).any(|c| c.iter().all(|x| *x == 0)) };
        // ... and x values with a zero limb in their Montgomery representation (squared by AffineG1::new when the encoding is decoded)
        let xs: Vec<&Vec<u8>> = poolq.cvt.iter().chain(poolq.vals.iter().filter(|v| zero_limb(v))).collect();
        for (i, v) in xs.into_iter().enumerate() {
            if a.tier != "thorough" && (i as u64 + a.seed % 1000003) % 3 != 0 { continue; }
            let mut w = v.clone();
            if w.iter().all(|x| *x == 0) { continue; }
            for k in (0..32).rev() { if w[k] == 0 { w[k] = 0xff; } else { w[k] -= 1; break; } }      // bytes of x - 1
            let x = Fq::from_slice(&w).unwrap() + Fq::one();
            if let Some(y) = (x * x * x + G1::b()).sqrt() {
                n += 1;
                let y = if n % 2 == 0 { y } else { -y };
                let r = if n % 5 == 0 { g1_rep(&mut rng, G1::new(x, y, Fq::one()), "S") } else { G1::new(x, y, Fq::one()) };
                let fmt = fmts[n % 3];
                out.call("g.encode", json!({"G": "G1", "a": r.jac(), "fmt": fmt, "k": b(&[0u8; 32]), "negated": false, "anchor": false}), || {
                    let e = r.enc(fmt);
                    let d = <G1 as Grp>::dec(&e, fmt);
                    outs! {"out" => b(&e), "dec" => opt_jac(d), "deceq" => Value::Bool(d.map(|x| x == r).unwrap_or(false))}
                });
            }
        }
        // representatives whose 1/z (squared by to_affine) has a zero limb in its Montgomery representation: z = 1/v
        let mut m = 0usize;
        for (i, vb) in poolq.vals.iter().filter(|v| zero_limb(v)).enumerate() {
            if (i as u64 + a.seed % 1000003) % (if a.tier == "thorough" { 1 } else { 4 }) != 0 { continue; }
            let v = Fq::from_slice(vb).unwrap();
            if v.is_zero() { continue; }
            m += 1;
            let mut pn = G1::one() * rand_fr(&mut rng);
            pn.normalize();
            let r = g1_scale(pn, v.inverse().unwrap());
            let fmt = fmts[m % 3];
            out.call("g.encode", json!({"G": "G1", "a": r.jac(), "fmt": fmt, "k": b(&[0u8; 32]), "negated": false, "anchor": false}), || {
                let e = r.enc(fmt);
                let d = <G1 as Grp>::dec(&e, fmt);
                outs! {"out" => b(&e), "dec" => opt_jac(d), "deceq" => Value::Bool(d.map(|x| x == r).unwrap_or(false))}
            });
        }
    }
    {
        let poolq = load_pool(&a.pool, "Fq");
        let thorough = a.tier == "thorough";
        let fmts = ["raw", "unc", "cmp"];
        let mut reps: Vec<G1> = crafted_points(&poolq, a.seed, if thorough { 600 } else { 200 });
        reps.extend(coord_points(&poolq, a.seed, if thorough { 300 } else { 100 }));
        reps.extend(sq_coord_points(&poolq, a.seed, if thorough { 200 } else { 40 }));
        // G2 representatives with 1/z = a + b u, both components Montgomery-boundary pool values
        for i in 0..(if thorough { 600 } else { 200 }) {
            let (pa, pb) = (Fq::from_slice(&poolq.vals[(i * 89 + 7 * (a.seed % 1000003) as usize) % poolq.vals.len()]).unwrap(), Fq::from_slice(&poolq.vals[(i * 53 + 11) % poolq.vals.len()]).unwrap());
            if let Some(l) = fq2_inv(Fq2::new(pa, pb)) {
                let mut n = G2::one() * rand_fr(&mut rng);
                n.normalize();
                let r = g2_scale(n, l);
                let fmt = fmts[i % 3];
                out.call("g.encode", json!({"G": "G2", "a": r.jac(), "fmt": fmt, "k": b(&[0u8; 32]), "negated": false, "anchor": false}), || {
                    let e = r.enc(fmt);
                    let d = <G2 as Grp>::dec(&e, fmt);
                    outs! {"out" => b(&e), "dec" => opt_jac(d), "deceq" => Value::Bool(d.map(|x| x == r).unwrap_or(false))}
                });
            }
        }
        for z in inv_pattern_zs(&poolq, a.seed, if thorough { 900 } else { 300 }) {
            let mut n = G1::one() * rand_fr(&mut rng);
            n.normalize();
            reps.push(g1_scale(n, z));
        }
        for (i, r) in reps.into_iter().enumerate() {
            let fmt = fmts[i % 3];
            out.call("g.encode", json!({"G": "G1", "a": r.jac(), "fmt": fmt, "k": b(&[0u8; 32]), "negated": false, "anchor": false}), || {
                let e = r.enc(fmt);
                let d = <G1 as Grp>::dec(&e, fmt);
                outs! {"out" => b(&e), "dec" => opt_jac(d), "deceq" => Value::Bool(d.map(|x| x == r).unwrap_or(false))}
            });
        }
    }
    // ... and the first multiples of the generators having a coordinate limb whose top byte is zero
    let (mut n1, mut n2) = (0, 0);
    let (mut p1, mut p2) = (G1::one(), G2::one());
    for _ in 0..3000 {
        p1 = p1 + G1::one();
        p2 = p2 + G2::one();
        if n1 < 2 && p1.enc("raw").chunks(32).any(|c| c[0] == 0) { n1 += 1; encode_point::<G1>(&mut rng, out, p1); }
        if n2 < 2 && p2.enc("raw").chunks(32).any(|c| c[0] == 0) { n2 += 1; encode_point::<G2>(&mut rng, out, p2); }
        if n1 >= 2 && n2 >= 2 { break; }
    }
    let mut k = 0u64;
    while !out.full() {
        k += 1;
        if k % 3 == 0 {
            encode_round::<G2>(&mut rng, &pool, out);
        } else {
            encode_round::<G1>(&mut rng, &pool, out);
        }
    }
}
