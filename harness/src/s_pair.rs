//! Suites on Gt and the pairing entry points (stateless events):
//!   gt      (C11)           mul / pow / inverse / one / == on pairing values, products, powers, inverses
//!   pairing (C01 C02 C03)   the three entry points on operands in every representation, with logged discrete logarithms
use crate::common::*;
use crate::grp::*;
use crate::outs;
use crate::reps::*;
use crate::Args;
use rand::rngs::StdRng;
use rand::Rng;
use serde_json::{json, Value};
use sm9_core::*;

pub const ENTRY: [&str; 3] = ["pairing", "fast", "prepared"];

pub fn pair_by(v: &str, p: G1, q: G2) -> Gt {
    match v {
        "pairing" => pairing(p, q),
        "fast" => fast_pairing(p, q),
        _ => G2Prepared::from(q).pairing(&p),
    }
}

fn gt_elem(rng: &mut StdRng, pool: &Pool) -> Gt {
    let (a, bb) = (pick_scalar(rng, pool), pick_scalar(rng, pool));
    let g = pairing(G1::one() * a, G2::one() * bb);
    match rng.gen_range(0..6) {
        0 => g * pairing(G1::one(), G2::one()),
        1 => g.pow(rand_fr(rng)),
        2 => g.inverse().unwrap(),
        3 => Gt::one(),
        _ => g,
    }
}

/// q^k mod r as a scalar: g^(q^k) is the q^k-power Frobenius conjugate of g (same subfield coefficients, e.g. the same leading
/// F_q^4 coefficient for k = 4), a distinct element of Gt algebraically related to g
fn frob_scalar(k: u32) -> Fr {
    let mut qb = (-Fq::one()).to_slice().to_vec();
    for i in (0..32).rev() {
        qb[i] = qb[i].wrapping_add(1);
        if qb[i] != 0 { break; }
    }
    let q = Fr::from_slice(&qb).unwrap();
    let mut acc = Fr::one();
    for _ in 0..k { acc = acc * q; }
    acc
}

/// the scalar by which the order-3 endomorphism (x, y) -> (w x, y) acts on the group: one of the two primitive cube roots of
/// unity mod r, identified on the generator (None if the library's own arithmetic does not single one out)
pub fn endo_eigen<G: Grp>() -> Option<Fr> {
    let e = Fr::from_slice(&hex!("3cc0000000e137a5f201391aa72f97c16dfb866e5da383fa4c7a4b34478a450c")).unwrap();   // (r-1)/3
    let mut g = Fr::one() + Fr::one();
    for _ in 0..8 {
        let l = g.pow(e);
        if l != Fr::one() {
            let target = G::gen().endo();
            for c in [l, l * l] {
                if G::gen() * c == target {
                    return Some(c);
                }
            }
            return None;
        }
        g = g + Fr::one();
    }
    None
}
/// the second operand of an additivity law: usually independent, otherwise RELATED to the first - the same point (same or another
/// representative), the opposite one sharing raw x and y, an endomorphism image sharing raw y and z, or an unrelated point
/// presented with the first operand's raw z, x or y
fn related<G: Grp>(rng: &mut StdRng, p: G, kp: Fr, kc: Fr, tag: &str, eig: &Option<Fr>) -> (G, Fr) {
    let indep = |rng: &mut StdRng| (G::rep(rng, G::gen() * kc, if kc.is_zero() { "ZN" } else { tag }), kc);
    if p.is_zero_() {
        return indep(rng);
    }
    match rng.gen_range(0..12) {
        0 => (p, kp),
        1 => (G::rep(rng, p, tag), kp),
        2 => (p.flip_z(), -kp),
        3 => (G::rep(rng, -p, tag), -kp),
        4 | 5 => match eig {
            Some(l) => {
                if rng.gen() { (p.endo(), kp * *l) } else { (p.endo().endo(), kp * *l * *l) }
            }
            None => indep(rng),
        },
        6 | 7 => {
            let (e, ke) = indep(rng);
            (e.share_coord(&p, rng.gen_range(0..4usize).min(2)).unwrap_or(e), ke)
        }
        _ => indep(rng),
    }
}

fn gt_laws_outs(g: Gt, h: Gt, s: Fr, t: Fr) -> Obj {
    outs! {"gh" => b(&(g * h).to_slice()), "hg" => b(&(h * g).to_slice()), "g1" => b(&(g * Gt::one()).to_slice()),
           "ginv_g" => b(&(g.inverse().unwrap() * g).to_slice()),
           "gs_gt" => b(&(g.pow(s) * g.pow(t)).to_slice()), "gspt" => b(&g.pow(s + t).to_slice()),
           "gs_t" => b(&g.pow(s).pow(t).to_slice()), "gst" => b(&g.pow(s * t).to_slice()),
           "gh_s" => b(&(g * h).pow(s).to_slice()), "gs_hs" => b(&(g.pow(s) * h.pow(s)).to_slice()),
           "g0" => b(&g.pow(Fr::zero()).to_slice()), "g1p" => b(&g.pow(Fr::one()).to_slice()),
           "grm1_g" => b(&(g.pow(-Fr::one()) * g).to_slice())}
}

pub fn run_gt(a: &Args, out: &mut Out) {
    let pool = load_pool(&a.pool, "Fr");
    let mut rng = rng_from(a.seed, "gt");
    out.call("gt.one", json!({}), || outs! {"out" => b(&Gt::one().to_slice())});
    // sweep: every exponent whose MONTGOMERY representation is a tiny integer or has a single non-zero limb (TLC-generated)
    if a.focus != "nosweep" {
        let g = pairing(G1::one(), G2::one());
        let sg = g.to_slice();
        for v in pool.lo.iter() {
            let s = Fr::from_slice(v).unwrap();
            out.call("gt.pow", json!({"a": b(&sg), "k": b(&s.to_slice())}), || outs! {"out" => b(&g.pow(s).to_slice())});
        }
    }
    if a.focus != "nosweep" {
        // sweep: exponents whose CANONICAL limbs come from {0, 1, 2^63, 2^64-1, r_i, r_i +- 1} (quick: every fourth, rotating with the seed)
        let g = pairing(G1::one(), G2::one());
        let sg = g.to_slice();
        for (i, v) in canon_patterns(&r_modulus()).iter().enumerate() {
            if a.tier != "thorough" && (i as u64 + a.seed % 1000003) % 4 != 0 { continue; }
            let s = Fr::from_slice(v).unwrap();
            out.call("gt.pow", json!({"a": b(&sg), "k": b(&s.to_slice())}), || outs! {"out" => b(&g.pow(s).to_slice())});
        }
    }
    if a.focus != "nosweep" {
        // exponent PAIRS whose product in Fr (the scalar arithmetic in front of pow) is a designated Montgomery product: (g^s)^t = g^(st)
        let g = pairing(G1::one(), G2::one());
        let sg = g.to_slice();
        for (i, pr) in pool.hpairs.iter().chain(pool.qpairs.iter().step_by(9)).enumerate() {
            if a.tier != "thorough" && (i as u64 + a.seed % 1000003) % 3 != 0 { continue; }
            let (s, t) = (Fr::from_slice(&pr.0).unwrap(), Fr::from_slice(&pr.1).unwrap());
            out.call("gt.laws", json!({"g": b(&sg), "h": b(&sg), "s": b(&s.to_slice()), "t": b(&t.to_slice())}), || gt_laws_outs(g, g, s, t));
        }
        // exponents from the conversion family (their bytes -> Montgomery form conversion has prescribed quotient digits)
        for (i, v) in pool.cvt.iter().enumerate() {
            if a.tier != "thorough" && (i as u64 + a.seed % 1000003) % 5 != 0 { continue; }
            if let Some(s) = Fr::from_slice(v) {
                out.call("gt.pow", json!({"a": b(&sg), "k": b(v)}), || outs! {"out" => b(&g.pow(s).to_slice())});
            }
        }
    }
    let mut k = 0u64;
    while !out.full() {
        k += 1;
        let (g, h) = (gt_elem(&mut rng, &pool), gt_elem(&mut rng, &pool));
        // every fifth pair: h is a Frobenius conjugate of g (h = g^(q^k)), or its inverse
        let h = if k % 5 == 0 {
            let c = g.pow(frob_scalar([1u32, 2, 3, 4, 6, 4, 8][(k / 5 % 7) as usize]));
            if k % 10 == 0 { c } else { c.inverse().unwrap() }
        } else if k % 7 == 3 {
            // equal operands (the same value computed twice), the inverse, g itself
            match rng.gen_range(0..3) { 0 => g, 1 => g.inverse().unwrap(), _ => Gt::one() * g }
        } else { h };
        let (sg, sh) = (g.to_slice(), h.to_slice());
        out.call("gt.mul", json!({"a": b(&sg), "b": b(&sh)}), || outs! {"out" => b(&(g * h).to_slice())});
        if k % 5 == 0 {
            out.call("gt.mul", json!({"a": b(&sh), "b": b(&sg)}), || outs! {"out" => b(&(h * g).to_slice())});
        }
        out.call("gt.eq", json!({"a": b(&sg), "b": b(&sh)}), || outs! {"out" => Value::Bool(g == h), "refl" => Value::Bool(g == g)});
        match k % 4 {
            0 => {
                let s = pick_scalar(&mut rng, &pool);
                out.call("gt.pow", json!({"a": b(&sg), "k": b(&s.to_slice())}), || outs! {"out" => b(&g.pow(s).to_slice())});
            }
            1 => {
                out.call("gt.inv", json!({"a": b(&sg)}), || outs! {"out" => opt_bytes(g.inverse().map(|x| x.to_slice()))});
            }
            2 => {
                let (s, t) = (pick_scalar(&mut rng, &pool), pick_scalar(&mut rng, &pool));
                out.call("gt.laws", json!({"g": b(&sg), "h": b(&sh), "s": b(&s.to_slice()), "t": b(&t.to_slice())}), || gt_laws_outs(g, h, s, t));
            }
            _ => {}
        }
    }
}

/// one pairing event: entry point v on (P, Q) given in representations (tp, tq); ka, kb are the discrete logarithms
fn pair_ev(out: &mut Out, v: &str, p: G1, q: G2, ka: Fr, kb: Fr, full: bool) {
    out.call("pair", json!({"v": v, "p": p.jac(), "q": q.jac(), "ka": b(&ka.to_slice()), "kb": b(&kb.to_slice()), "full": full}), || {
        outs! {"out" => b(&pair_by(v, p, q).to_slice())}
    });
}

pub fn run_pairing(a: &Args, out: &mut Out) {
    let pool = load_pool(&a.pool, "Fr");
    let mut rng = rng_from(a.seed, "pairing");
    let focus = a.focus.as_str();
    // the FIRST pairings of the process see the generators in non-affine representatives (a value computed on first use from a
    // special input and kept must not depend on the representative that happened to come first)
    {
        let (p, q) = (g1_rep(&mut rng, G1::one(), "J"), g2_rep(&mut rng, G2::one(), "J"));
        for v in ["fast", "prepared", "pairing"] {
            pair_ev(out, v, p, q, Fr::one(), Fr::one(), false);
        }
    }
    // fixed: generators, identities in every form, on every entry point
    for v in ENTRY {
        pair_ev(out, v, G1::one(), G2::one(), Fr::one(), Fr::one(), true);
        if focus == "vector" {
            continue; // C02 quantifies over a, b in Z_r*: identity arguments belong to C01 / C03
        }
        for zt in ["Z0", "ZN", "S"] {
            let z1 = g1_rep(&mut rng, <G1 as Grp>::zero(), zt);
            let z2 = g2_rep(&mut rng, <G2 as Grp>::zero(), zt);
            pair_ev(out, v, z1, G2::one(), Fr::zero(), Fr::one(), false);
            pair_ev(out, v, G1::one(), z2, Fr::one(), Fr::zero(), false);
            pair_ev(out, v, z1, z2, Fr::zero(), Fr::zero(), false);
        }
    }
    if focus == "vector" {
        // G1 representatives crafted so that their normalisation multiplies a TLC-generated operand pair (no discrete logarithm known:
        // only the byte-exact textbook pairing of the abstracted operands is checked)
        let poolq = load_pool(&a.pool, "Fq");
        let mut done = 0;
        for (i, pr) in poolq.qpairs.iter().chain(poolq.vpairs.iter()).enumerate() {
            if done >= (if a.tier == "thorough" { 300 } else { 45 }) { break; }
            if i % 5 != (a.seed % 5) as usize { continue; }
            if let Some(p) = crafted_g1(pr) {
                done += 1;
                let kb = pick_scalar(&mut rng, &pool);
                if kb.is_zero() { continue; }
                let q = G2::one() * kb;
                let v = ENTRY[done % 3];
                out.call("pair", json!({"v": v, "p": p.jac(), "q": q.jac(), "ka": b(&[0u8; 32]), "kb": b(&kb.to_slice()), "full": true, "nodl": true}), || {
                    outs! {"out" => b(&pair_by(v, p, q).to_slice())}
                });
            }
        }
    }
    if focus == "vector" {
        // G1 points chosen so that the FIRST step of the Miller loop multiplies into a Montgomery-boundary value: with T = Q affine the
        // tangent coefficient is 3 x_Q^2 x_P (halved in G2::miller_loop, times -1 in the prepared loop); x_P = v / (3 Re(x_Q^2)) or
        // v / (3 Im(x_Q^2)) for a pool value v (limb patterns 0, 1, 2^63, 2^64-1, q_i, q_i +- 1), when that x carries a point
        let poolq = load_pool(&a.pool, "Fq");
        let three = Fq::one() + Fq::one() + Fq::one();
        let budget = if a.tier == "thorough" { 400 } else { 64 };
        // stratified by the LOW Montgomery limb of v (all ones / zero / one / anything else): carry and borrow chains start there
        let mut v33 = [0u8; 33];
        v33[0] = 1;
        let rr = Fq::from_slice(&v33).unwrap();
        let mut buckets: Vec<Vec<Fq>> = vec![Vec::new(), Vec::new(), Vec::new(), Vec::new()];
        for vb in poolq.vals.iter() {
            let v = Fq::from_slice(vb).unwrap();
            let m = (v * rr).to_slice();
            let low = &m[24..32];
            let k = if low == [0xffu8; 8] { 0 } else if low == [0u8; 8] { 1 } else if low == [0, 0, 0, 0, 0, 0, 0, 1] { 2 } else { 3 };
            buckets[k].push(v);
        }
        buckets.retain(|x| !x.is_empty());
        let (mut done, mut tries) = (0usize, 0usize);
        while done < budget && tries < 40 * budget && !buckets.is_empty() {
            tries += 1;
            let bk = &buckets[rng.gen_range(0..buckets.len())];
            let v = bk[rng.gen_range(0..bk.len())];
            let kb = pick_scalar(&mut rng, &pool);
            if kb.is_zero() || v.is_zero() { continue; }
            let mut q = G2::one() * kb;
            q.normalize();
            let x2 = q.x() * q.x();
            let d = three * (if tries % 2 == 0 { x2.real() } else { x2.imaginary() });
            let xp = match d.inverse() { Some(di) => v * di, None => continue };
            let mut enc = vec![2u8 + (tries % 2) as u8];
            enc.extend_from_slice(&xp.to_slice());
            if let Ok(p) = G1::from_compressed(&enc) {
                done += 1;
                let v = ["pairing", "pairing", "fast", "pairing", "prepared", "pairing"][done % 6];
                out.call("pair", json!({"v": v, "p": p.jac(), "q": q.jac(), "ka": b(&[0u8; 32]), "kb": b(&kb.to_slice()), "full": true, "nodl": true}), || {
                    outs! {"out" => b(&pair_by(v, p, q).to_slice())}
                });
            }
        }
    }
    if focus == "vector" {
        // G1 points with a tiny affine x (and x = q - i): coordinates with many zero bytes, in a normalised and a rescaled form
        let mut done = 0;
        for xi in 0u8..60 {
            if done >= (if a.tier == "thorough" { 40 } else { 8 }) { break; }
            if (xi as u64 + a.seed % 1000003) % 3 != 0 { continue; }
            let mut v = vec![2u8 + (xi & 1)];
            let mut x = [0u8; 32];
            x[31] = xi;
            let xs = if xi % 4 == 3 { (-Fq::from_slice(&x).unwrap()).to_slice() } else { x };
            v.extend_from_slice(&xs);
            if let Ok(p) = G1::from_compressed(&v) {
                done += 1;
                let p = if xi % 2 == 0 { p } else { g1_rep(&mut rng, p, "S") };
                let kb = pick_scalar(&mut rng, &pool);
                if kb.is_zero() { continue; }
                let tq = pick_tag(&mut rng);
                let q = g2_rep(&mut rng, G2::one() * kb, tq);
                let v = ENTRY[done % 3];
                out.call("pair", json!({"v": v, "p": p.jac(), "q": q.jac(), "ka": b(&[0u8; 32]), "kb": b(&kb.to_slice()), "full": true, "nodl": true}), || {
                    outs! {"out" => b(&pair_by(v, p, q).to_slice())}
                });
            }
        }
    }
    if focus == "vector" || focus == "agree" {
        // one representative of EVERY rescaling class of either group (the random rounds below draw them with unequal weights)
        for sel in 0..G2_NSEL.max(G1_NSEL) {
            let (ka, kb) = (pick_scalar(&mut rng, &pool), pick_scalar(&mut rng, &pool));
            if ka.is_zero() || kb.is_zero() { continue; }
            let p = if sel < G1_NSEL { g1_rep_class(&mut rng, G1::one() * ka, sel) } else { G1::one() * ka };
            let q = g2_rep_class(&mut rng, G2::one() * kb, sel);
            for (j, v) in ENTRY.iter().enumerate() {
                if focus == "agree" || j == sel % 3 {
                    pair_ev(out, v, p, q, ka, kb, focus == "vector");
                }
            }
        }
        // G2 representatives whose normalisation computes a product in the 'two subtractions' class of the sum of products
        for (i, w) in hi_w().iter().enumerate() {
            let (ka, kb) = (pick_scalar(&mut rng, &pool), pick_scalar(&mut rng, &pool));
            if ka.is_zero() || kb.is_zero() { continue; }
            if let Some(l) = fq2_inv(*w) {
                let mut qn = G2::one() * kb;
                qn.normalize();
                let (p, q) = (G1::one() * ka, g2_scale(qn, l));
                for (j, v) in ENTRY.iter().enumerate() {
                    pair_ev(out, v, p, q, ka, kb, focus == "vector" && j == i % 3);
                }
            }
        }
    }
    if focus == "agree" {
        // SWEEP: every sparse-Montgomery pool value as the z of a G1 representative, and as the real or imaginary part of the z of a
        // G2 representative (quick: every third value, rotating with the seed)
        let poolq = load_pool(&a.pool, "Fq");
        for (i, l) in sparse_mont(&poolq.vals).into_iter().enumerate() {
            let (ka, kb) = (pick_scalar(&mut rng, &pool), pick_scalar(&mut rng, &pool));
            if ka.is_zero() || kb.is_zero() { continue; }
            let (mut pn, mut qn) = (G1::one() * ka, G2::one() * kb);
            pn.normalize();
            qn.normalize();
            // G1: every value (the Fq inversion sees z itself); G2: a third of them (its inversion sees the norm of z)
            pair_ev(out, ENTRY[i % 3], g1_scale(pn, l), qn, ka, kb, false);
            if a.tier == "thorough" || (i as u64 + a.seed % 1000003) % 3 == 0 {
                let lz = if i % 2 == 0 { Fq2::new(l, Fq::zero()) } else { Fq2::new(Fq::zero(), l) };
                pair_ev(out, ENTRY[(i / 3) % 3], pn, g2_scale(qn, lz), ka, kb, false);
            }
        }
    }
    if focus == "laws" || focus == "agree" || focus == "vector" {
        // arithmetic boundary families pushed through the pairing API:
        //  (a) crafted G1 representatives whose normalisation performs a designated Montgomery product (unknown discrete logarithm:
        //      the laws are checked as relations between the recorded values, e(P,Q) itself against the textbook pairing);
        //  (b) representatives of known points whose 1/z has a designated Montgomery pattern (to_affine squares it); the same value as
        //      the real part of a G2 z (Fq2::inverse squares both components).
        let poolq = load_pool(&a.pool, "Fq");
        let thorough = a.tier == "thorough";
        let mut crafted = crafted_points(&poolq, a.seed, if thorough { 120 } else if focus == "laws" { 45 } else { 14 });
        // ... and affine points one of whose coordinates is itself a pattern value (the Miller loop multiplies and scales by x_P, y_P)
        crafted.extend(coord_points(&poolq, a.seed, if thorough { 120 } else if focus == "laws" { 20 } else { 10 }));
        for (i, p) in crafted.into_iter().enumerate() {
            let (kb, kc, kd) = (pick_scalar(&mut rng, &pool), pick_scalar(&mut rng, &pool), pick_scalar(&mut rng, &pool));
            if kb.is_zero() { continue; }
            let tq = pick_tag(&mut rng);
            let q = g2_rep(&mut rng, G2::one() * kb, tq);
            if focus == "laws" {
                let (tp2, tq2) = (pick_tag(&mut rng), pick_tag(&mut rng));
                let p2 = g1_rep(&mut rng, G1::one() * kc, if kc.is_zero() { "ZN" } else { tp2 });
                let q2 = g2_rep(&mut rng, G2::one() * kd, if kd.is_zero() { "ZN" } else { tq2 });
                let v = ENTRY[i % 3];
                out.call("pair.laws", json!({"v": v, "p": p.jac(), "q": q.jac(), "p2": p2.jac(), "q2": q2.jac(), "nodl": true, "full": i % 4 == 0,
                                             "ka": b(&[0u8; 32]), "kb": b(&kb.to_slice()), "kc": b(&kc.to_slice()), "kd": b(&kd.to_slice())}), || {
                    let e = pair_by(v, p, q);
                    outs! {"e_pq" => b(&e.to_slice()),
                           "e_p2q" => b(&pair_by(v, p2, q).to_slice()), "e_pq2" => b(&pair_by(v, p, q2).to_slice()),
                           "e_pp2_q" => b(&pair_by(v, p + p2, q).to_slice()), "e_p_qq2" => b(&pair_by(v, p, q + q2).to_slice()),
                           "mul_p" => b(&(e * pair_by(v, p2, q)).to_slice()), "mul_q" => b(&(e * pair_by(v, p, q2)).to_slice()),
                           "e_cp_dq" => b(&pair_by(v, p * kc, q * kd).to_slice()), "e_pow" => b(&e.pow(kc * kd).to_slice()),
                           "erm1_e" => b(&(e.pow(-Fr::one()) * e).to_slice())}
                });
            } else if focus == "agree" {
                for v in ENTRY {
                    out.call("pair", json!({"v": v, "p": p.jac(), "q": q.jac(), "ka": b(&[0u8; 32]), "kb": b(&kb.to_slice()), "full": true, "nodl": true}), || {
                        outs! {"out" => b(&pair_by(v, p, q).to_slice())}
                    });
                }
            }
        }
        for (i, z) in inv_pattern_zs(&poolq, a.seed, if thorough { 1200 } else { 700 }).into_iter().enumerate() {
            let (ka, kb) = (pick_scalar(&mut rng, &pool), pick_scalar(&mut rng, &pool));
            if ka.is_zero() || kb.is_zero() { continue; }
            let (mut pn, mut qn) = (G1::one() * ka, G2::one() * kb);
            pn.normalize();
            qn.normalize();
            let (p, q) = if i % 3 == 2 {
                let c1 = if i % 2 == 0 { Fq::zero() } else { rand_fq_nonzero(&mut rng) };
                (pn, g2_scale(qn, Fq2::new(z.inverse().unwrap(), c1)))
            } else { (g1_scale(pn, z), qn) };
            pair_ev(out, ENTRY[i % 3], p, q, ka, kb, focus == "vector" && i % 3 == 0);
        }
    }
    let (eig1, eig2) = (endo_eigen::<G1>(), endo_eigen::<G2>());
    let mut k = 0u64;
    while !out.full() {
        k += 1;
        let (ka, kb) = (pick_scalar(&mut rng, &pool), pick_scalar(&mut rng, &pool));
        if focus == "vector" && (ka.is_zero() || kb.is_zero()) {
            continue;
        }
        let (p0, q0) = (G1::one() * ka, G2::one() * kb);
        match focus {
            "vector" => {
                // C02: byte-for-byte against the full textbook pairing; one representation pair, all entry points
                let tp = if ka.is_zero() { pick_ztag(&mut rng) } else { pick_tag(&mut rng) };
                let tq = if kb.is_zero() { pick_ztag(&mut rng) } else { pick_tag(&mut rng) };
                let p = g1_rep(&mut rng, p0, tp);
                let q = g2_rep(&mut rng, q0, tq);
                for (i, v) in ENTRY.iter().enumerate() {
                    pair_ev(out, v, p, q, ka, kb, i == (k % 3) as usize);
                }
            }
            "agree" => {
                // C03: every entry point on several representations of the same pair
                for _ in 0..2 {
                    let tp = if ka.is_zero() { pick_ztag(&mut rng) } else { pick_tag(&mut rng) };
                    let tq = if kb.is_zero() { pick_ztag(&mut rng) } else { pick_tag(&mut rng) };
                    let (p, q) = (g1_rep(&mut rng, p0, tp), g2_rep(&mut rng, q0, tq));
                    for v in ENTRY {
                        pair_ev(out, v, p, q, ka, kb, false);
                    }
                }
                // a prepared value reused for several G1 inputs, in two orders, while the source variable is overwritten
                let tq = if kb.is_zero() { pick_ztag(&mut rng) } else { pick_tag(&mut rng) };
                let mut qv = g2_rep(&mut rng, q0, tq);
                let mut ks: Vec<Fr> = (0..3).map(|_| pick_scalar(&mut rng, &pool)).collect();
                let mut ps: Vec<G1> = ks.iter().map(|s| { let t = pick_tag(&mut rng); g1_rep(&mut rng, G1::one() * *s, if s.is_zero() { "ZN" } else { t }) }).collect();
                if k % 2 == 0 && !ks[0].is_zero() {
                    // consecutive inputs that share their RAW x and y but denote different elements: (x, y, z), (x, y, -z) = -P, (x, y, 0) = O
                    let p0 = ps[0];
                    ps[1] = G1::new(p0.x(), p0.y(), -p0.z());
                    ks[1] = -ks[0];
                    ps[2] = G1::new(p0.x(), p0.y(), Fq::zero());
                    ks[2] = Fr::zero();
                }
                let kss: Vec<Value> = ks.iter().map(|s| b(&s.to_slice())).collect();
                let pss: Vec<Value> = ps.iter().map(|p| p.jac()).collect();
                out.call("prep.reuse", json!({"q": qv.jac(), "kb": b(&kb.to_slice()), "ps": pss, "kas": kss}), || {
                    let prep = G2Prepared::from(qv);
                    qv = qv + G2::one();            // the source is overwritten after the preparation
                    let first: Vec<Value> = ps.iter().map(|p| b(&prep.pairing(p).to_slice())).collect();
                    let cl = prep.clone();
                    let second: Vec<Value> = ps.iter().rev().map(|p| b(&prep.pairing(p).to_slice())).collect();
                    let third: Vec<Value> = ps.iter().map(|p| b(&cl.pairing(p).to_slice())).collect();
                    outs! {"first" => Value::Array(first), "second_rev" => Value::Array(second), "clone" => Value::Array(third)}
                });
            }
            _ => {
                // C01: bilinearity, additivity in each argument, g^(r-1) * g = 1
                let tp = if ka.is_zero() { pick_ztag(&mut rng) } else { pick_tag(&mut rng) };
                let tq = if kb.is_zero() { pick_ztag(&mut rng) } else { pick_tag(&mut rng) };
                let (p, q) = (g1_rep(&mut rng, p0, tp), g2_rep(&mut rng, q0, tq));
                let v = ENTRY[(k % 3) as usize];
                pair_ev(out, v, p, q, ka, kb, false);
                let (kc, kd) = (pick_scalar(&mut rng, &pool), pick_scalar(&mut rng, &pool));
                let (tp2, tq2) = (pick_tag(&mut rng), pick_tag(&mut rng));
                let (p2, kc) = related(&mut rng, p, ka, kc, tp2, &eig1);
                let (q2, kd) = related(&mut rng, q, kb, kd, tq2, &eig2);
                out.call("pair.laws", json!({"v": v, "p": p.jac(), "q": q.jac(), "p2": p2.jac(), "q2": q2.jac(),
                                             "ka": b(&ka.to_slice()), "kb": b(&kb.to_slice()), "kc": b(&kc.to_slice()), "kd": b(&kd.to_slice())}), || {
                    let e = pair_by(v, p, q);
                    outs! {"e_pq" => b(&e.to_slice()),
                           "e_p2q" => b(&pair_by(v, p2, q).to_slice()), "e_pq2" => b(&pair_by(v, p, q2).to_slice()),
                           "e_pp2_q" => b(&pair_by(v, p + p2, q).to_slice()), "e_p_qq2" => b(&pair_by(v, p, q + q2).to_slice()),
                           "mul_p" => b(&(e * pair_by(v, p2, q)).to_slice()), "mul_q" => b(&(e * pair_by(v, p, q2)).to_slice()),
                           "e_cp_dq" => b(&pair_by(v, p * kc, q * kd).to_slice()), "e_pow" => b(&e.pow(kc * kd).to_slice()),
                           "erm1_e" => b(&(e.pow(-Fr::one()) * e).to_slice())}
                });
            }
        }
    }
}
