//! Suite "symwalk" (direction spec -> implementation): executes the transitions that TLC enumerated for the symbolic
//! group machine (spec/SymGroup.tla) on the real library.
//!   1. constructive: every transition is executed on operands built to have exactly the (k, tag) of its pre-state;
//!   2. walk: the state graph is walked breadth-first from the real initial registers, every abstract state being
//!      entered through a really executed history; each concrete successor, abstracted with alpha, must be one of the
//!      successors TLC lists for that (state, action).
//! alpha(register) = (discrete logarithm looked up in the TLC-computed table of canonical encodings, tag read off z).
use crate::common::*;
use crate::grp::*;
use crate::reps::*;
use crate::Args;
use rand::rngs::StdRng;
use serde_json::{json, Value};
use sm9_core::*;
use std::collections::{BTreeMap, BTreeSet, HashMap, VecDeque};

struct Table {
    enc2k: HashMap<Vec<u8>, i64>,
    k2enc: HashMap<i64, Vec<u8>>,
}
fn load_table(path: &str, g: &str) -> Table {
    let v: Value = serde_json::from_str(&std::fs::read_to_string(path).expect("table")).expect("json");
    let mut t = Table { enc2k: HashMap::new(), k2enc: HashMap::new() };
    for row in v.as_array().unwrap() {
        let k = row["k"].as_i64().unwrap();
        let e = unb(&row[if g == "G1" { "g1" } else { "g2" }]);
        t.enc2k.insert(e.clone(), k);
        t.k2enc.insert(k, e);
    }
    t
}

fn alpha<G: Grp>(t: &Table, p: &G) -> (Option<i64>, String) {
    let j = p.jac();
    let (x, y, z) = (unb(&j[0]), unb(&j[1]), unb(&j[2]));
    if p.is_zero_() {
        let n = z.len();
        let mut one = vec![0u8; n];
        one[n - 1] = 1;
        let canonical = x.iter().all(|b| *b == 0) && y == one;
        return (Some(0), if canonical { "Z0".into() } else { "ZN".into() });
    }
    let n = z.len();
    let mut one = vec![0u8; n];
    one[n - 1] = 1;
    let tag = if z == one { "A" } else { "J" };
    (t.enc2k.get(&p.enc("raw")).copied(), tag.into())
}

fn build<G: Grp>(rng: &mut StdRng, t: &Table, k: i64, tag: &str) -> G {
    if k == 0 {
        return G::rep(rng, G::zero(), tag);
    }
    let p = G::dec(&t.k2enc[&k], "raw").expect("table entry decodes");
    G::rep(rng, p, tag)
}

fn scalar(s: i64) -> Fr {
    let two = Fr::one() + Fr::one();
    match s {
        0 => Fr::zero(),
        1 => Fr::one(),
        2 => two,
        -1 => -Fr::one(),
        _ => panic!("scalar alphabet"),
    }
}

/// executes one action on the register file; returns observables (for "observe" / "affrt")
fn exec<G: Grp>(rng: &mut StdRng, regs: &mut Vec<G>, act: &str, args: &[i64]) -> Value {
    let r = |i: i64| (i - 1) as usize;
    match act {
        "gen" => { regs[r(args[0])] = G::gen(); json!({"none": true}) }
        "zero" => { regs[r(args[0])] = G::zero(); json!({"none": true}) }
        "add" => { regs[r(args[0])] = regs[r(args[1])] + regs[r(args[2])]; json!({"none": true}) }
        "sub" => { regs[r(args[0])] = regs[r(args[1])] - regs[r(args[2])]; json!({"none": true}) }
        "neg" => { regs[r(args[0])] = -regs[r(args[1])]; json!({"none": true}) }
        "mul" => { regs[r(args[0])] = regs[r(args[1])] * scalar(args[2]); json!({"none": true}) }
        "normalize" => { regs[r(args[0])].normalize_(); json!({"none": true}) }
        "rescale" => { let x = regs[r(args[0])]; regs[r(args[0])] = G::rep(rng, x, "S"); json!({"none": true}) }
        "affrt" => {
            let x = regs[r(args[1])];
            let rt = x.affine().and_then(|(ax, ay)| G::affine_new(&ax, &ay));
            regs[r(args[0])] = rt.unwrap_or(x);
            json!({"ok": rt.is_some()})
        }
        "observe" => {
            let (x, y) = (regs[r(args[0])], regs[r(args[1])]);
            json!({"eq": x == y, "zero": x.is_zero_()})
        }
        _ => unreachable!("{}", act),
    }
}
fn exec_codec<G: Grp>(regs: &mut Vec<G>, args: &[i64], fmt: &str) -> Value {
    let x = regs[(args[1] - 1) as usize];
    match G::dec(&x.enc(fmt), fmt) {
        Some(y) => { regs[(args[0] - 1) as usize] = y; json!({"none": true}) }
        None => json!({"decode_failed": true}),
    }
}

fn state_key(v: &Value) -> String {
    v.to_string()
}

fn run_g<G: Grp>(a: &Args, out_path: &str) {
    let table = load_table(&a.table, G::NAME);
    let mut rng = rng_from(a.seed, "symwalk");
    // transitions grouped by (pre, act, args) -> set of posts, obs
    let txt = std::fs::read_to_string(&a.input).expect("--in transitions");
    let mut succ: BTreeMap<String, BTreeMap<String, (Value, BTreeSet<String>, Value)>> = BTreeMap::new();
    let mut ntrans = 0u64;
    for line in txt.lines() {
        if line.trim().is_empty() { continue; }
        let t: Value = serde_json::from_str(line).expect("transition json");
        ntrans += 1;
        let pre = state_key(&t["pre"]);
        let actkey = json!([t["act"], t["args"]]).to_string();
        let e = succ.entry(pre).or_default().entry(actkey).or_insert((json!([t["act"], t["args"]]), BTreeSet::new(), t["obs"].clone()));
        e.1.insert(state_key(&t["post"]));
    }
    let mut mism: Vec<Value> = vec![];
    let mut executed = 0u64;
    let abs_state = |regs: &Vec<G>, table: &Table| -> (Value, bool) {
        let mut ok = true;
        let v: Vec<Value> = regs.iter().map(|p| { let (k, tag) = alpha(table, p); if k.is_none() { ok = false; } json!([k.unwrap_or(9999), tag]) }).collect();
        (Value::Array(v), ok)
    };
    let mut run_one = |regs: &mut Vec<G>, pre: &str, actv: &Value, posts: &BTreeSet<String>, obs: &Value, mode: &str, path: &Vec<Value>, rng: &mut StdRng, mism: &mut Vec<Value>| -> Option<String> {
        let act = actv[0].as_str().unwrap();
        let args: Vec<i64> = actv[1].as_array().unwrap().iter().filter_map(|x| x.as_i64()).collect();
        let r = std::panic::catch_unwind(std::panic::AssertUnwindSafe(|| {
            let mut rr = regs.clone();
            let o = if act == "codec" { exec_codec(&mut rr, &args, actv[1][2].as_str().unwrap()) } else { exec(rng, &mut rr, act, &args) };
            (rr, o)
        }));
        match r {
            Err(_) => {
                mism.push(json!({"mode": mode, "pre": pre, "act": actv, "why": "panic", "path": path}));
                None
            }
            Ok((rr, o)) => {
                let (post, known) = abs_state(&rr, &table);
                let pk = state_key(&post);
                let obs_ok = match act { "observe" | "affrt" => &o == obs, _ => o.get("decode_failed").is_none() };
                if !known || !posts.contains(&pk) || !obs_ok {
                    mism.push(json!({"mode": mode, "pre": pre, "act": actv, "expected_posts": posts.iter().collect::<Vec<_>>(), "observed_post": post,
                                     "expected_obs": obs, "observed_obs": o, "why": "mismatch", "path": path}));
                    return None;
                }
                *regs = rr;
                Some(pk)
            }
        }
    };
    // ---- 1. constructive: every (state, action) on operands built with exactly the tags of the pre-state
    for (pre, acts) in succ.iter() {
        if a.mode == "walk" { break; }
        let prev: Value = serde_json::from_str(pre).unwrap();
        for (_ak, (actv, posts, obs)) in acts.iter() {
            let mut regs: Vec<G> = prev.as_array().unwrap().iter().map(|r| build::<G>(&mut rng, &table, r[0].as_i64().unwrap(), r[1].as_str().unwrap())).collect();
            // the construction itself must abstract to the pre-state
            let (chk, ok) = abs_state(&regs, &table);
            if !ok || state_key(&chk) != *pre {
                mism.push(json!({"mode": "construct", "pre": pre, "built": chk, "why": "operand-construction"}));
                continue;
            }
            executed += 1;
            run_one(&mut regs, pre, actv, posts, obs, "constructive", &vec![], &mut rng, &mut mism);
        }
    }
    // ---- 2. breadth-first walk with real histories
    let n = succ.keys().next().map(|k| serde_json::from_str::<Value>(k).unwrap().as_array().unwrap().len()).unwrap_or(2);
    let init: Vec<G> = (0..n).map(|_| G::gen()).collect();
    let (ik, _) = abs_state(&init, &table);
    let mut seen: BTreeSet<String> = BTreeSet::new();
    let mut queue: VecDeque<(String, Vec<G>, Vec<Value>)> = VecDeque::new();
    seen.insert(state_key(&ik));
    queue.push_back((state_key(&ik), init, vec![]));
    let mut walked = 0u64;
    while let Some((sk, regs, path)) = queue.pop_front() {
        if a.mode == "constructive" { break; }
        let acts = match succ.get(&sk) { Some(a) => a, None => { mism.push(json!({"mode": "walk", "pre": sk, "why": "state-not-in-spec", "path": path})); continue; } };
        for (_ak, (actv, posts, obs)) in acts.iter() {
            let mut rr = regs.clone();
            walked += 1;
            if let Some(pk) = run_one(&mut rr, &sk, actv, posts, obs, "walk", &path, &mut rng, &mut mism) {
                if !seen.contains(&pk) {
                    seen.insert(pk.clone());
                    let mut p2 = path.clone();
                    p2.push(actv.clone());
                    queue.push_back((pk, rr, p2));
                }
            }
        }
    }
    let unreached: Vec<&String> = succ.keys().filter(|k| !seen.contains(*k)).collect();
    let res = json!({"group": G::NAME, "spec_transitions": ntrans, "spec_states": succ.len(), "constructive_executed": executed, "walk_executed": walked,
                     "walk_states_reached": seen.len(), "states_only_constructive": unreached.len(), "mismatches": mism.len(),
                     "first_mismatches": mism.iter().take(20).collect::<Vec<_>>()});
    std::fs::write(out_path, res.to_string()).unwrap();
}

pub fn run(a: &Args, out: &mut Out) {
    let path = out.path.clone();
    if a.focus == "G2" { run_g::<G2>(a, &format!("{}.result.json", path)) } else { run_g::<G1>(a, &format!("{}.result.json", path)) }
}

// ------------------------------------------------------------------------------------------------ SymPair
struct GtTable {
    enc2k: HashMap<Vec<u8>, i64>,
}
fn load_gt_table(path: &str) -> GtTable {
    let v: Value = serde_json::from_str(&std::fs::read_to_string(path).expect("table")).expect("json");
    let mut t = GtTable { enc2k: HashMap::new() };
    for row in v.as_array().unwrap() {
        t.enc2k.insert(unb(&row["gt"]), row["k"].as_i64().unwrap());
    }
    t
}
fn fr_of_i64(k: i64) -> Fr {
    let mut v = [0u8; 32];
    v[24..].copy_from_slice(&(k.unsigned_abs()).to_be_bytes());
    let f = Fr::from_slice(&v).unwrap();
    if k < 0 { -f } else { f }
}
const NONE: i64 = 1000;

#[derive(Clone)]
struct PS {
    p: G1,
    q: G2,
    h: Option<(G2Prepared, i64)>,
    g: Option<Gt>,
}

fn ps_alpha(t1: &Table, t2: &Table, tg: &GtTable, s: &PS) -> (Value, bool) {
    let (kp, tp) = alpha(t1, &s.p);
    let (kq, tq) = alpha(t2, &s.q);
    let mut ok = kp.is_some() && kq.is_some();
    let g = match &s.g {
        None => NONE,
        Some(x) => match tg.enc2k.get(&x.to_slice().to_vec()) {
            Some(k) => *k,
            None => { ok = false; 9999 }
        },
    };
    let h = s.h.as_ref().map(|x| x.1).unwrap_or(NONE);
    (json!({"p": [kp.unwrap_or(9999), tp], "q": [kq.unwrap_or(9999), tq], "h": h, "g": g}), ok)
}

fn ps_exec(rng: &mut StdRng, t2: &Table, s: &mut PS, act: &str, args: &Value) {
    let which = args[0].as_str().unwrap_or("");
    macro_rules! on {
        ($f1:expr, $f2:expr) => {
            if which == "p" { s.p = $f1(s.p); } else { s.q = $f2(s.q); }
        };
    }
    match act {
        "gen" => on!(|_| G1::gen(), |_| G2::gen()),
        "zero" => on!(|_| <G1 as Grp>::zero(), |_| <G2 as Grp>::zero()),
        "addgen" => on!(|x: G1| x + G1::gen(), |x: G2| x + G2::gen()),
        "subgen" => on!(|x: G1| x - G1::gen(), |x: G2| x - G2::gen()),
        "neg" => on!(|x: G1| -x, |x: G2| -x),
        "selfsub" => on!(|x: G1| x - x, |x: G2| x - x),
        "mul" => { let k = scalar(args[1].as_i64().unwrap()); on!(|x: G1| x * k, |x: G2| x * k) }
        "rescale" => { if which == "p" { let x = s.p; s.p = G1::rep(rng, x, "S"); } else { let x = s.q; s.q = G2::rep(rng, x, "S"); } }
        "normalize" => { if which == "p" { s.p.normalize(); } else { s.q.normalize(); } }
        "pair" => { s.g = Some(crate::s_pair::pair_by(args[0].as_str().unwrap(), s.p, s.q)); }
        "prepare" => {
            // the logarithm captured with the prepared value is the one alpha reads off q now (the prepared value is opaque)
            let (kq, _) = alpha(t2, &s.q);
            s.h = Some((G2Prepared::from(s.q), kq.unwrap_or(9999)));
        }
        "preppair" => {
            let (pr, _) = s.h.as_ref().unwrap();
            let via_clone = args[0].as_bool().unwrap_or(false);
            s.g = Some(if via_clone { pr.clone().pairing(&s.p) } else { pr.pairing(&s.p) });
        }
        "gtsquare" => { let x = s.g.unwrap(); s.g = Some(x * x); }
        "gtinv" => { s.g = s.g.unwrap().inverse(); }
        "gtpow" => { s.g = Some(s.g.unwrap().pow(scalar(args[0].as_i64().unwrap()))); }
        "gtmulpair" => { s.g = Some(s.g.unwrap() * pairing(s.p, s.q)); }
        _ => unreachable!("{}", act),
    }
}

pub fn run_pair(a: &Args, out: &mut Out) {
    let (t1, t2, tg) = (load_table(&a.table, "G1"), load_table(&a.table, "G2"), load_gt_table(&a.table));
    let mut rng = rng_from(a.seed, "sympair");
    let txt = std::fs::read_to_string(&a.input).expect("--in transitions");
    let mut succ: BTreeMap<String, BTreeMap<String, (Value, BTreeSet<String>)>> = BTreeMap::new();
    let mut ntrans = 0u64;
    for line in txt.lines() {
        if line.trim().is_empty() { continue; }
        let t: Value = serde_json::from_str(line).expect("transition json");
        ntrans += 1;
        let e = succ.entry(t["pre"].to_string()).or_default().entry(json!([t["act"], t["args"]]).to_string()).or_insert((json!([t["act"], t["args"]]), BTreeSet::new()));
        e.1.insert(t["post"].to_string());
    }
    let mut mism: Vec<Value> = vec![];
    let g0 = pairing(G1::gen(), G2::gen());
    let mut step = |s: &PS, pre: &str, actv: &Value, posts: &BTreeSet<String>, mode: &str, path: &Vec<Value>, rng: &mut StdRng, mism: &mut Vec<Value>| -> Option<(String, PS)> {
        let r = std::panic::catch_unwind(std::panic::AssertUnwindSafe(|| {
            let mut s2 = s.clone();
            ps_exec(rng, &t2, &mut s2, actv[0].as_str().unwrap(), &actv[1]);
            s2
        }));
        match r {
            Err(_) => { mism.push(json!({"mode": mode, "pre": pre, "act": actv, "why": "panic", "path": path})); None }
            Ok(s2) => {
                let (post, known) = ps_alpha(&t1, &t2, &tg, &s2);
                let pk = post.to_string();
                if !known || !posts.contains(&pk) {
                    mism.push(json!({"mode": mode, "pre": pre, "act": actv, "expected_posts": posts.iter().collect::<Vec<_>>(), "observed_post": post, "why": "mismatch", "path": path}));
                    None
                } else { Some((pk, s2)) }
            }
        }
    };
    // ---- constructive
    let mut executed = 0u64;
    if a.mode != "walk" {
        for (pre, acts) in succ.iter() {
            let pv: Value = serde_json::from_str(pre).unwrap();
            for (_k, (actv, posts)) in acts.iter() {
                let p = build::<G1>(&mut rng, &t1, pv["p"][0].as_i64().unwrap(), pv["p"][1].as_str().unwrap());
                let q = build::<G2>(&mut rng, &t2, pv["q"][0].as_i64().unwrap(), pv["q"][1].as_str().unwrap());
                let hk = pv["h"].as_i64().unwrap();
                let h = if hk == NONE { None } else {
                    let tag = if hk == 0 { ["Z0", "ZN"][(executed % 2) as usize] } else { ["A", "J"][(executed % 2) as usize] };
                    Some((G2Prepared::from(build::<G2>(&mut rng, &t2, hk, tag)), hk))
                };
                let gk = pv["g"].as_i64().unwrap();
                let g = if gk == NONE { None } else { Some(g0.pow(fr_of_i64(gk))) };
                let s = PS { p, q, h, g };
                let (chk, ok) = ps_alpha(&t1, &t2, &tg, &s);
                if !ok || chk.to_string() != *pre {
                    mism.push(json!({"mode": "construct", "pre": pre, "built": chk, "why": "operand-construction"}));
                    continue;
                }
                executed += 1;
                step(&s, pre, actv, posts, "constructive", &vec![], &mut rng, &mut mism);
            }
        }
    }
    // ---- walk with real histories
    let init = PS { p: G1::gen(), q: G2::gen(), h: None, g: None };
    let (ik, _) = ps_alpha(&t1, &t2, &tg, &init);
    let mut seen: BTreeSet<String> = BTreeSet::new();
    let mut queue: VecDeque<(String, PS, Vec<Value>)> = VecDeque::new();
    seen.insert(ik.to_string());
    queue.push_back((ik.to_string(), init, vec![]));
    let mut walked = 0u64;
    while let Some((sk, s, path)) = queue.pop_front() {
        if a.mode == "constructive" { break; }
        let acts = match succ.get(&sk) { Some(x) => x, None => { mism.push(json!({"mode": "walk", "pre": sk, "why": "state-not-in-spec", "path": path})); continue; } };
        for (_k, (actv, posts)) in acts.iter() {
            walked += 1;
            if let Some((pk, s2)) = step(&s, &sk, actv, posts, "walk", &path, &mut rng, &mut mism) {
                if !seen.contains(&pk) {
                    seen.insert(pk.clone());
                    let mut p2 = path.clone();
                    p2.push(actv.clone());
                    queue.push_back((pk, s2, p2));
                }
            }
        }
    }
    let unreached = succ.keys().filter(|k| !seen.contains(*k)).count();
    let res = json!({"group": "pair", "spec_transitions": ntrans, "spec_states": succ.len(), "constructive_executed": executed, "walk_executed": walked,
                     "walk_states_reached": seen.len(), "states_only_constructive": unreached, "mismatches": mism.len(),
                     "first_mismatches": mism.iter().take(20).collect::<Vec<_>>()});
    std::fs::write(format!("{}.result.json", out.path), res.to_string()).unwrap();
}
