//! Conformance driver: executes operations of the real sm9_core library and records one ndjson
//! event per public call (inputs, outputs as observed through the public API).  The events are
//! validated by TLC against the TLA+ specification (spec/Trace.tla).  The driver computes no
//! expectation of its own.
mod common;
mod grp;
mod reps;
mod s_codec;
mod s_group;
mod s_machine;
mod s_pair;
mod s_replay;
mod s_tower;
mod s_conv;
mod s_field;

use common::Out;

pub struct Args {
    pub suite: String,
    pub out: String,
    pub seed: u64,
    pub n: u64,
    pub profile: String,
    pub pool: String,
    pub input: String,
    pub tier: String,
    pub part: u64,
    pub parts: u64,
    pub focus: String,
    pub table: String,
    pub mode: String,
}

fn parse() -> Args {
    let mut a = Args {
        suite: String::new(),
        out: String::new(),
        seed: std::env::var("VERIF_SEED").ok().and_then(|s| s.parse().ok()).unwrap_or(1),
        n: 1000,
        profile: if cfg!(debug_assertions) { "dev".into() } else { "release".into() },
        pool: "/verif/build/gen/pool.json".into(),
        input: String::new(),
        tier: "quick".into(),
        part: 0,
        parts: 1,
        focus: "all".into(),
        table: String::new(),
        mode: "both".into(),
    };
    let v: Vec<String> = std::env::args().collect();
    a.suite = v.get(1).cloned().unwrap_or_default();
    let mut i = 2;
    while i + 1 < v.len() {
        match v[i].as_str() {
            "--out" => a.out = v[i + 1].clone(),
            "--seed" => a.seed = v[i + 1].parse().expect("seed"),
            "--n" => a.n = v[i + 1].parse().expect("n"),
            "--pool" => a.pool = v[i + 1].clone(),
            "--in" => a.input = v[i + 1].clone(),
            "--tier" => a.tier = v[i + 1].clone(),
            "--part" => a.part = v[i + 1].parse().expect("part"),
            "--mode" => a.mode = v[i + 1].clone(),
            "--table" => a.table = v[i + 1].clone(),
            "--focus" => a.focus = v[i + 1].clone(),
            "--parts" => a.parts = v[i + 1].parse().expect("parts"),
            x => panic!("unknown option {}", x),
        }
        i += 2;
    }
    if a.suite.is_empty() || a.out.is_empty() {
        eprintln!("usage: driver <suite> --out FILE [--seed N] [--n N] [--pool FILE] [--in FILE] [--tier T] [--part i --parts k]");
        std::process::exit(2);
    }
    a
}

fn main() {
    let a = parse();
    let mut out = Out::new(&a.out, &a.profile);
    out.limit = a.n;
    match a.suite.as_str() {
        "fp" => s_field::run_fp(&a, &mut out),
        "fq2" => s_field::run_fq2(&a, &mut out),
        "conv" => s_conv::run(&a, &mut out),
        "decode" => s_codec::run_decode(&a, &mut out),
        "affine" => s_codec::run_affine(&a, &mut out),
        "sqrt" => s_codec::run_sqrt(&a, &mut out),
        "gt" => s_pair::run_gt(&a, &mut out),
        "pairing" => s_pair::run_pairing(&a, &mut out),
        "gmachine" => s_machine::run_gmachine(&a, &mut out),
        "fmachine" => s_machine::run_fmachine(&a, &mut out),
        "tower" => s_tower::run(&a, &mut out),
        "symwalk" => s_replay::run(&a, &mut out),
        "sympair" => s_replay::run_pair(&a, &mut out),
        "group" => s_group::run_group(&a, &mut out),
        "encode" => s_group::run_encode(&a, &mut out),
        s => {
            eprintln!("unknown suite {}", s);
            std::process::exit(2);
        }
    }
    out.finish();
    eprintln!("driver: suite={} profile={} events={}", a.suite, a.profile, out.seq);
}
