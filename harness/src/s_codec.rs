//! Suites on byte strings and coordinates:
//!   decode (C08)  every decoder on well-formed, malformed and corrupted inputs (run under both build profiles)
//!   affine (C09)  validated construction on TLC-generated twist points (spec/GenTwist.tla)
//!   sqrt   (C14)  Fq::sqrt, Fq2::sqrt, compressed decoding of x-coordinates that carry a point
use crate::common::*;
use crate::grp::*;
use crate::outs;
use crate::reps::*;
use crate::Args;
use rand::rngs::StdRng;
use rand::Rng;
use serde_json::{json, Value};
use sm9_core::*;

const FMTS: [&str; 3] = ["raw", "unc", "cmp"];

fn q_bytes() -> Vec<u8> {
    let mut v = (-Fq::one()).to_slice().to_vec();
    for i in (0..32).rev() {
        v[i] = v[i].wrapping_add(1);
        if v[i] != 0 {
            break;
        }
    }
    v
}
/// a + q as 32 bytes if it fits in 256 bits
fn add_q(a: &[u8]) -> Option<Vec<u8>> {
    let q = q_bytes();
    let mut out = vec![0u8; 32];
    let mut c = 0u16;
    for i in (0..32).rev() {
        let t = a[i] as u16 + q[i] as u16 + c;
        out[i] = (t & 0xff) as u8;
        c = t >> 8;
    }
    if c == 0 { Some(out) } else { None }
}

fn decode_ev<G: Grp>(out: &mut Out, fmt: &str, input: &[u8]) {
    out.call("g.decode", json!({"G": G::NAME, "fmt": fmt, "in": b(input)}), || outs! {"out" => dec_result::<G>(input, fmt)});
}
fn decode_all(out: &mut Out, input: &[u8]) {
    for fmt in FMTS {
        decode_ev::<G1>(out, fmt, input);
        decode_ev::<G2>(out, fmt, input);
    }
    out.call("f2.from_slice", json!({"in": b(input)}), || outs! {"out" => opt_bytes(Fq2::from_slice(input).map(|v| v.to_slice()))});
}

fn valid_point<G: Grp>(rng: &mut StdRng, pool: &Pool) -> G {
    loop {
        let k = pick_scalar(rng, pool);
        if !k.is_zero() {
            return G::gen() * k;
        }
    }
}

fn corruptions<G: Grp>(rng: &mut StdRng, pool: &Pool, out: &mut Out, thorough: bool) {
    let p = valid_point::<G>(rng, pool);
    let c = G::CLEN;
    for fmt in FMTS {
        let e = p.enc(fmt);
        decode_ev::<G>(out, fmt, &e);
        // the valid encoding offered to the other decoders of the same group
        for f2 in FMTS {
            if f2 != fmt {
                decode_ev::<G>(out, f2, &e);
            }
        }
        // lengths off by one
        decode_ev::<G>(out, fmt, &e[..e.len() - 1]);
        decode_ev::<G>(out, fmt, &e[1..]);
        let mut longer = e.clone();
        longer.push(rng.gen());
        decode_ev::<G>(out, fmt, &longer);
        let mut longer = vec![0u8];
        longer.extend_from_slice(&e);
        decode_ev::<G>(out, fmt, &longer);
        // single-bit corruptions: every bit (thorough) or a sample
        let nbits = e.len() * 8;
        let bits: Vec<usize> = if thorough { (0..nbits).collect() } else { (0..10).map(|_| rng.gen_range(0..nbits)).collect() };
        for bit in bits {
            let mut v = e.clone();
            v[bit / 8] ^= 1 << (bit % 8);
            decode_ev::<G>(out, fmt, &v);
        }
        // single-byte corruptions
        for _ in 0..(if thorough { 24 } else { 4 }) {
            let mut v = e.clone();
            let i = rng.gen_range(0..v.len());
            v[i] = rng.gen();
            decode_ev::<G>(out, fmt, &v);
        }
        // every prefix byte
        if fmt != "raw" {
            let prefixes: Vec<u8> = if thorough { (0..=255).collect() } else { vec![0, 1, 2, 3, 4, 5, 6, 7, 0x82, 0x83, 0xff, rng.gen()] };
            for pb in prefixes {
                let mut v = e.clone();
                v[0] = pb;
                decode_ev::<G>(out, fmt, &v);
            }
        }
        // each 32-byte limb replaced by limb + q (where it fits), by q itself and by 2^256 - 1
        let off = if fmt == "raw" { 0 } else { 1 };
        let nl = (e.len() - off) / 32;
        for l in 0..nl {
            let s = off + 32 * l;
            if let Some(w) = add_q(&e[s..s + 32]) {
                let mut v = e.clone();
                v[s..s + 32].copy_from_slice(&w);
                decode_ev::<G>(out, fmt, &v);
            }
            let mut v = e.clone();
            v[s..s + 32].copy_from_slice(&q_bytes());
            decode_ev::<G>(out, fmt, &v);
            let mut v = e.clone();
            v[s..s + 32].copy_from_slice(&[0xffu8; 32]);
            decode_ev::<G>(out, fmt, &v);
        }
    }
    let _ = c;
}

/// points with a small x so that x + q fits in 256 bits: x = small integers that carry a point (G1)
/// q - i as 32 bytes
fn q_minus(i: u8) -> [u8; 32] {
    let mut v = [0u8; 32];
    v.copy_from_slice(&q_bytes());
    let mut borrow = i as i16;
    for k in (0..32).rev() {
        let t = v[k] as i16 - borrow;
        if t < 0 { v[k] = (t + 256) as u8; borrow = 1; } else { v[k] = t as u8; borrow = 0; }
        if borrow == 0 { break; }
    }
    v
}

/// q + sum e_i 2^(64 i) as 32 big-endian bytes, when it lies in [0, 2^256)
fn q_perturbed(e: [i64; 4]) -> Option<[u8; 32]> {
    let q = q_bytes();
    let mut limbs = [0u64; 4];                      // little-endian limbs of q
    for i in 0..4 {
        let mut w = [0u8; 8];
        w.copy_from_slice(&q[(3 - i) * 8..(4 - i) * 8]);
        limbs[i] = u64::from_be_bytes(w);
    }
    let mut carry: i128 = 0;
    let mut out = [0u8; 32];
    for i in 0..4 {
        let t = limbs[i] as i128 + e[i] as i128 + carry;
        let lo = t.rem_euclid(1i128 << 64);
        carry = (t - lo) >> 64;
        out[(3 - i) * 8..(4 - i) * 8].copy_from_slice(&(lo as u64).to_be_bytes());
    }
    if carry == 0 { Some(out) } else { None }
}
/// LIMB-WISE perturbations of the modulus: q + sum e_i 2^(64 i), e_i in {-1, 0, 1} (and a few larger / random ones), on both sides
/// of q, most of them sharing q's top limb - a range check that compares limbs in the wrong order, or only some of them, decides
/// these wrongly.  As a compressed x with both prefixes; when x (or x - q) carries a point also raw and uncompressed, so that a value
/// >= q that a lenient parser would REDUCE onto a curve point is offered too; and as Fq2 components.
fn limb_perturbations(out: &mut Out, rng: &mut StdRng) {
    let mut es: Vec<[i64; 4]> = Vec::new();
    for a in -1..=1i64 { for b in -1..=1i64 { for c in -1..=1i64 { for d in -1..=1i64 {
        if (a, b, c, d) != (0, 0, 0, 0) { es.push([a, b, c, d]); }
    } } } }
    for _ in 0..60 {
        // random lower limbs under q's own top limb (either side of q), and small multiples
        let m = |rng: &mut StdRng| -> i64 { match rng.gen_range(0..3) { 0 => rng.gen_range(-3..=3), 1 => rng.gen::<i64>() >> rng.gen_range(0..62), _ => rng.gen::<i64>() } };
        es.push([m(rng), m(rng), m(rng), 0]);
    }
    for e in es {
        let v = match q_perturbed(e) { Some(v) => v, None => continue };
        let mut xs = vec![v.to_vec()];
        // the same value reduced (v - q, when v >= q): the point a lenient parser would land on
        let red = Fq::from_slice(&v).map(|x| x.to_slice().to_vec());
        if let Some(r) = &red { if r[..] != v[..] { xs.push(r.clone()); } }
        for pre in [2u8, 3u8] {
            let mut c = vec![pre];
            c.extend_from_slice(&v);
            decode_ev::<G1>(out, "cmp", &c);
        }
        // a point on the curve at x = v mod q: its y with the x bytes v (possibly >= q)
        let mut c = vec![2u8];
        c.extend_from_slice(xs.last().unwrap());
        if let Some(p) = G1::dec(&c, "cmp") {
            let e = p.enc("raw");
            let mut raw = v.to_vec();
            raw.extend_from_slice(&e[32..]);
            decode_ev::<G1>(out, "raw", &raw);
            let mut u = vec![4u8];
            u.extend_from_slice(&raw);
            decode_ev::<G1>(out, "unc", &u);
            // and the perturbed value in the y position
            let mut raw2 = e[..32].to_vec();
            raw2.extend_from_slice(&v);
            decode_ev::<G1>(out, "raw", &raw2);
        }
        let mut w = v.to_vec();
        w.extend_from_slice(&q_minus(1));
        out.call("f2.from_slice", json!({"in": b(&w)}), || outs! {"out" => opt_bytes(Fq2::from_slice(&w).map(|v| v.to_slice()))});
        let mut w = q_minus(2).to_vec();
        w.extend_from_slice(&v);
        out.call("f2.from_slice", json!({"in": b(&w)}), || outs! {"out" => opt_bytes(Fq2::from_slice(&w).map(|v| v.to_slice()))});
    }
}

fn small_x_cases(out: &mut Out) {
    // coordinates just below q (top limbs equal to q's): x = q - i, both prefixes; Fq2 components q - i
    for i in 1u8..40 {
        let x = q_minus(i);
        for pre in [2u8, 3u8] {
            let mut v = vec![pre];
            v.extend_from_slice(&x);
            decode_ev::<G1>(out, "cmp", &v);
            if let Some(p) = G1::dec(&v, "cmp") {
                let e = p.enc("raw");
                decode_ev::<G1>(out, "raw", &e);
                let mut u = vec![4u8];
                u.extend_from_slice(&e);
                decode_ev::<G1>(out, "unc", &u);
            }
        }
        let mut w = x.to_vec();
        w.extend_from_slice(&q_minus(i.wrapping_mul(7) % 40 + 1));
        out.call("f2.from_slice", json!({"in": b(&w)}), || outs! {"out" => opt_bytes(Fq2::from_slice(&w).map(|v| v.to_slice()))});
    }
    for xi in 0u8..40 {
        let mut x = [0u8; 32];
        x[31] = xi;
        for pre in [2u8, 3u8] {
            let mut v = vec![pre];
            v.extend_from_slice(&x);
            decode_ev::<G1>(out, "cmp", &v);
            if let Some(p) = G1::dec(&v, "cmp") {
                // the decoded point, re-encoded raw with x + q and y + q variants
                let e = p.enc("raw");
                for l in 0..2 {
                    if let Some(w) = add_q(&e[32 * l..32 * l + 32]) {
                        let mut m = e.clone();
                        m[32 * l..32 * l + 32].copy_from_slice(&w);
                        decode_ev::<G1>(out, "raw", &m);
                        let mut u = vec![4u8];
                        u.extend_from_slice(&m);
                        decode_ev::<G1>(out, "unc", &u);
                    }
                }
                if let Some(w) = add_q(&x) {
                    let mut c = vec![pre];
                    c.extend_from_slice(&w);
                    decode_ev::<G1>(out, "cmp", &c);
                }
            }
        }
    }
}

pub fn run_decode(a: &Args, out: &mut Out) {
    let pool = load_pool(&a.pool, "Fr");
    let mut rng = rng_from(a.seed, "decode");
    let thorough = a.tier == "thorough";
    // every length 0..=140 with three fills, offered to every decoder
    for len in 0..=140usize {
        decode_all(out, &vec![0u8; len]);
        decode_all(out, &vec![0xffu8; len]);
        decode_all(out, &rand_bytes(&mut rng, len));
        if len == 33 || len == 65 || len == 129 {
            for pre in [2u8, 3, 4] {
                let mut v = rand_bytes(&mut rng, len);
                v[0] = pre;
                decode_all(out, &v);
                let mut v = vec![0u8; len];
                v[0] = pre;
                decode_all(out, &v);
            }
        }
    }
    small_x_cases(out);
    limb_perturbations(out, &mut rng);
    // compressed x taken from the conversion-quotient family (the decoder's conversion of x into Montgomery form has zero quotient digits)
    {
        let poolq = load_pool(&a.pool, "Fq");
        for (i, v) in poolq.cvt.iter().enumerate() {
            if !thorough && (i as u64 + a.seed % 1000003) % 4 != 0 { continue; }
            let mut c = vec![2u8 + (i % 2) as u8];
            c.extend_from_slice(v);
            decode_ev::<G1>(out, "cmp", &c);
        }
    }
    let rounds = if thorough { 6 } else { 2 };
    for _ in 0..rounds {
        corruptions::<G1>(&mut rng, &pool, out, thorough);
        corruptions::<G2>(&mut rng, &pool, out, thorough);
    }
    // order-r points of OTHER curves y^2 = x^3 + b' (the group formulas never use b, so [r]P = O holds for them):
    // a valid point rescaled to (l^2 x, l^3 y), and a G1 point embedded in Fq2 coordinates
    for i in 0..(if thorough { 12 } else { 4 }) {
        let p1 = valid_point::<G1>(&mut rng, &pool);
        let p2 = valid_point::<G2>(&mut rng, &pool);
        let (a1, a2) = (AffineG1::from_jacobian(p1).unwrap(), AffineG2::from_jacobian(p2).unwrap());
        let l = Fq::from_slice(&[2 + i as u8]).unwrap();
        let (l2, l3) = (l * l, l * l * l);
        let mut w1 = (a1.x() * l2).to_slice().to_vec();
        w1.extend_from_slice(&(a1.y() * l3).to_slice());
        let (lx, ly) = (Fq2::new(l2, Fq::zero()), Fq2::new(l3, Fq::zero()));
        let mut w2 = (a2.x() * lx).to_slice().to_vec();
        w2.extend_from_slice(&(a2.y() * ly).to_slice());
        // G1 point embedded as (x + 0u, y + 0u): on y^2 = x^3 + 5, not on the twist
        let mut e2 = vec![0u8; 32];
        e2.extend_from_slice(&a1.x().to_slice());
        e2.extend_from_slice(&[0u8; 32]);
        e2.extend_from_slice(&a1.y().to_slice());
        decode_ev::<G1>(out, "raw", &w1);
        for w in [&w2, &e2] {
            decode_ev::<G2>(out, "raw", w);
            let mut u = vec![4u8];
            u.extend_from_slice(w);
            decode_ev::<G2>(out, "unc", &u);
            let mut c = vec![2 + (w[127] & 1)];
            c.extend_from_slice(&w[..64]);
            decode_ev::<G2>(out, "cmp", &c);
        }
    }
    // twist points whose y is PURELY IMAGINARY (real part 0: y and -y have the same parity, no prefix can select between them)
    // or purely real: x = cbrt(y^2 - 5u); not in the subgroup, every decoder must return Err without panicking
    {
        let mut found = 0;
        for t in 1u8..40 {
            if found >= (if thorough { 12 } else { 4 }) { break; }
            let ft = Fq::from_slice(&[t]).unwrap();
            for y in [Fq2::new(Fq::zero(), ft), Fq2::new(ft, Fq::zero())] {
                if let Some(x) = fq2_cbrt(y * y - G2::b()) {
                    found += 1;
                    let (xs, ys) = (x.to_slice(), y.to_slice());
                    for pre in [2u8, 3u8] {
                        let mut c = vec![pre];
                        c.extend_from_slice(&xs);
                        decode_ev::<G2>(out, "cmp", &c);
                    }
                    let mut raw = xs.to_vec();
                    raw.extend_from_slice(&ys);
                    decode_ev::<G2>(out, "raw", &raw);
                    let mut u = vec![4u8];
                    u.extend_from_slice(&raw);
                    decode_ev::<G2>(out, "unc", &u);
                }
            }
        }
    }
    // random x-coordinates with both compressed prefixes (about half carry a point)
    let n = if thorough { 200 } else { 30 };
    for i in 0..n {
        let x = Fq::from_slice(&rand_bytes(&mut rng, 64)).unwrap().to_slice();
        let mut v = vec![2 + (i % 2) as u8];
        v.extend_from_slice(&x);
        decode_ev::<G1>(out, "cmp", &v);
        if i % 5 == 0 {
            let x1 = Fq::from_slice(&rand_bytes(&mut rng, 64)).unwrap().to_slice();
            let mut w = vec![2 + (i % 2) as u8];
            w.extend_from_slice(&x1);
            w.extend_from_slice(&x);
            decode_ev::<G2>(out, "cmp", &w);
        }
    }
}

// ------------------------------------------------------------------------------------------------ affine (C09)
/// coordinates offered to Affine*::new (unless only the decoders are under test) and to the raw / uncompressed decoders
fn offer<G: Grp>(out: &mut Out, x: &[u8], y: &[u8], kind: &str, decoders_only: bool) {
    if !decoders_only {
        out.call("g.affine_new", json!({"G": G::NAME, "x": b(x), "y": b(y), "kind": kind}), || {
            outs! {"out" => Value::from(if G::affine_new(x, y).is_some() { "ok" } else { "err" })}
        });
    }
    let mut raw = x.to_vec();
    raw.extend_from_slice(y);
    let mut unc = vec![4u8];
    unc.extend_from_slice(&raw);
    decode_ev::<G>(out, "raw", &raw);
    decode_ev::<G>(out, "unc", &unc);
}
/// NEAR-curve points: the two sides of the curve equation differ by a delta confined to one limb of the Montgomery representation
/// (of one component).  G1: (x, sqrt(x^3 + 5 + d)).  G2: a point of the order-r subgroup rescaled to (s^2 X, s^3 Y) with
/// s^6 = 1 + d/b, which lies on y^2 = x^3 + b + d and still has order r there (the group formulas never use b) - only an exact
/// comparison of ALL limbs of both components rejects it - and a plain near-twist point (sqrt(x^3 + b + d)).
fn near_curve(rng: &mut StdRng, pool: &Pool, out: &mut Out, decoders_only: bool, budget: usize) {
    let ds = limb_deltas();
    let mut n1 = 0;
    for (i, d) in ds.iter().enumerate() {
        if n1 >= 4 * budget { break; }
        let x = Fq::from_slice(&rand_bytes(rng, 64)).unwrap();
        if let Some(y) = (x * x * x + G1::b() + *d).sqrt() {
            n1 += 1;
            let y = if i % 2 == 0 { y } else { -y };
            offer::<G1>(out, &x.to_slice(), &y.to_slice(), "near-curve", decoders_only);
        }
    }
    let binv = fq2_inv(G2::b()).unwrap();
    let (mut n2, mut n3) = (0usize, 0);
    for (i, d) in ds.iter().enumerate() {
        for comp in 0..2 {
            let d2 = if comp == 0 { Fq2::new(*d, Fq::zero()) } else { Fq2::new(Fq::zero(), *d) };
            {
                if let Some(s) = fq2_sixth_root(Fq2::one() + d2 * binv) {
                    n2 += 1;
                    let a = AffineG2::from_jacobian(valid_point::<G2>(rng, pool)).unwrap();
                    let (s2, s3) = (s * s, s * s * s);
                    let (x, y) = ((a.x() * s2).to_slice(), (a.y() * s3).to_slice());
                    offer::<G2>(out, &x, &y, "near-curve-order-r", decoders_only);
                    let mut c = vec![2 + (y[63] & 1)];
                    c.extend_from_slice(&x);
                    decode_ev::<G2>(out, "cmp", &c);
                }
            }
            if n3 < budget / 2 && (i + comp) % 5 == 0 {
                let x = rand_fq2_nonzero(rng);
                if let Some(y) = (x * x * x + G2::b() + d2).sqrt() {
                    n3 += 1;
                    offer::<G2>(out, &x.to_slice(), &y.to_slice(), "near-twist", decoders_only);
                }
            }
        }
    }
}

pub fn run_affine(a: &Args, out: &mut Out) {
    let decoders_only = a.focus == "decoders";
    {
        let poolr = load_pool(&a.pool, "Fr");
        let mut rng = rng_from(a.seed, "near");
        near_curve(&mut rng, &poolr, out, decoders_only, if a.tier == "thorough" { 40 } else { 12 });
    }
    // pairs SHARING one coordinate with a distinguished point (the generator, its negative): (x', +-y_G), (x_G, y'), (x_G, -y_G)
    {
        let mut rng = rng_from(a.seed, "gen-share");
        let g1 = AffineG1::from_jacobian(G1::one()).unwrap();
        let g2 = AffineG2::from_jacobian(G2::one()).unwrap();
        for i in 0..6 {
            let (rx, ry) = (rand_fq_nonzero(&mut rng), rand_fq_nonzero(&mut rng));
            let (x, y) = match i { 0 => (rx, g1.y()), 1 => (rx, -g1.y()), 2 => (g1.x(), ry), 3 => (g1.x(), -g1.y()), 4 => (-g1.x(), g1.y()), _ => (g1.y(), g1.x()) };
            offer::<G1>(out, &x.to_slice(), &y.to_slice(), "shares-generator-coordinate", decoders_only);
            let (rx, ry) = (rand_fq2_nonzero(&mut rng), rand_fq2_nonzero(&mut rng));
            let (x, y) = match i { 0 => (rx, g2.y()), 1 => (rx, -g2.y()), 2 => (g2.x(), ry), 3 => (g2.x(), -g2.y()), 4 => (-g2.x(), g2.y()), _ => (g2.y(), g2.x()) };
            offer::<G2>(out, &x.to_slice(), &y.to_slice(), "shares-generator-coordinate", decoders_only);
        }
    }
    // G1 on / off-curve pairs whose x-coordinate is a Montgomery-boundary value of the TLC-generated pool (zero limbs, all-ones
    // limbs, half-limb boundaries ...): AffineG1::new squares the caller's coordinates directly
    if !decoders_only {
        let pool = load_pool(&a.pool, "Fq");
        let mut rng = rng_from(a.seed, "affine");
        let n = pool.vals.len();
        let mut k = 0;
        for i in 0..pool.vals.len() {
            if k >= n { break; }
            let idx = i;
            let _ = &mut rng;
            let x = Fq::from_slice(&pool.vals[idx]).unwrap();
            let rhs = x * x * x + G1::b();
            if let Some(y) = rhs.sqrt() {
                k += 1;
                let (sx, sy) = (x.to_slice(), y.to_slice());
                out.call("g.affine_new", json!({"G": "G1", "x": b(&sx), "y": b(&sy), "kind": "pool-x-on-curve"}), || {
                    outs! {"out" => Value::from(if G1::affine_new(&sx, &sy).is_some() { "ok" } else { "err" })}
                });
                let sy1 = (y + Fq::one()).to_slice();
                out.call("g.affine_new", json!({"G": "G1", "x": b(&sx), "y": b(&sy1), "kind": "pool-x-off-curve"}), || {
                    outs! {"out" => Value::from(if G1::affine_new(&sx, &sy1).is_some() { "ok" } else { "err" })}
                });
                // and with the roles swapped: a boundary value as y (on the curve only by accident)
                out.call("g.affine_new", json!({"G": "G1", "x": b(&sy), "y": b(&sx), "kind": "pool-y"}), || {
                    outs! {"out" => Value::from(if G1::affine_new(&sy, &sx).is_some() { "ok" } else { "err" })}
                });
            }
        }
    }
    let txt = std::fs::read_to_string(&a.input).expect("--in twist point file (from spec/GenTwist.tla)");
    let v: Value = serde_json::from_str(&txt).expect("json");
    for p in v["g2"].as_array().unwrap() {
        let (x, y) = (unb(&p["x"]), unb(&p["y"]));
        let kind = p["kind"].as_str().unwrap();
        if !decoders_only {
        out.call("g.affine_new", json!({"G": "G2", "x": b(&x), "y": b(&y), "kind": kind}), || {
            outs! {"out" => Value::from(if G2::affine_new(&x, &y).is_some() { "ok" } else { "err" })}
        });
        }
        // the same point offered to the three G2 decoders
        let mut raw = x.clone();
        raw.extend_from_slice(&y);
        let mut unc = vec![4u8];
        unc.extend_from_slice(&raw);
        let mut cmp = vec![2 + (y[63] & 1)];
        cmp.extend_from_slice(&x);
        decode_ev::<G2>(out, "raw", &raw);
        decode_ev::<G2>(out, "unc", &unc);
        decode_ev::<G2>(out, "cmp", &cmp);
    }
    for p in v["g1"].as_array().unwrap() {
        let (x, y) = (unb(&p["x"]), unb(&p["y"]));
        let kind = p["kind"].as_str().unwrap();
        if !decoders_only {
        out.call("g.affine_new", json!({"G": "G1", "x": b(&x), "y": b(&y), "kind": kind}), || {
            outs! {"out" => Value::from(if G1::affine_new(&x, &y).is_some() { "ok" } else { "err" })}
        });
        }
        let mut raw = x.clone();
        raw.extend_from_slice(&y);
        decode_ev::<G1>(out, "raw", &raw);
    }
}

// ------------------------------------------------------------------------------------------------ sqrt (C14)
fn fq_sqrt_ev(out: &mut Out, x: Fq) {
    let sx = x.to_slice();
    out.call("f.sqrt", json!({"a": b(&sx)}), || outs! {"out" => opt_bytes(x.sqrt().map(|s| s.to_slice()))});
}
fn fq2_sqrt_ev(out: &mut Out, x: Fq2) {
    let sx = x.to_slice();
    out.call("f2.sqrt", json!({"a": b(&sx)}), || outs! {"out" => opt_bytes(x.sqrt().map(|s| s.to_slice()))});
}

pub fn run_sqrt(a: &Args, out: &mut Out) {
    let poolq = load_pool(&a.pool, "Fq");
    let poolr = load_pool(&a.pool, "Fr");
    let mut rng = rng_from(a.seed, "sqrt");
    let small = |i: u8| -> Fq {
        let mut v = [0u8; 32];
        v[31] = i;
        Fq::from_slice(&v).unwrap()
    };
    // fixed: 0, 1, -1, -2, small integers and their negatives, in Fq and as elements of Fq2 with zero imaginary part
    for i in 0..=40u8 {
        for x in [small(i), -small(i)] {
            fq_sqrt_ev(out, x);
            fq2_sqrt_ev(out, Fq2::new(x, Fq::zero()));
            fq2_sqrt_ev(out, Fq2::new(Fq::zero(), x));
        }
    }
    // sweep: every element whose Montgomery representation is a tiny integer or has a single non-zero limb (TLC-generated),
    // as an Fq radicand and as the real part of an Fq2 radicand (also -2v, whose root is purely imaginary)
    for v in poolq.lo.iter() {
        let x = Fq::from_slice(v).unwrap();
        fq_sqrt_ev(out, x);
        fq2_sqrt_ev(out, Fq2::new(x, Fq::zero()));
        fq2_sqrt_ev(out, Fq2::new(-(x + x), Fq::zero()));
    }
    // radicands of prescribed NORM a^2 + 2 b^2 (the first quantity the Fq2 square-root algorithm computes): every norm-one element
    // is z / conj(z) = z^2 / N(z); multiplied by a small element w it has norm N(w) in {1, 2, 3, 4, 6, 9, 1/4, ...} - squares of Fq2
    // whose roots have norm +1 or -1, and non-squares (N(w) = 2, 6: non-residues of Fq)
    let unit = |z: Fq2| -> Option<Fq2> {
        let n = (z.real() * z.real() + (z.imaginary() * z.imaginary() + z.imaginary() * z.imaginary())).inverse()?;
        Some(z * z * Fq2::new(n, Fq::zero()))
    };
    let ws: Vec<Fq2> = {
        let (o, z, t) = (Fq::one(), Fq::zero(), small(2));
        let h = t.inverse().unwrap();
        vec![Fq2::new(o, z), Fq2::new(-o, z), Fq2::new(z, o), Fq2::new(o, o), Fq2::new(t, z), Fq2::new(o, t), Fq2::new(t, o), Fq2::new(h, z), Fq2::new(z, h), Fq2::new(o, -o)]
    };
    for t in 1..=40u8 {
        if let Some(zeta) = unit(Fq2::new(Fq::one(), small(t))) {
            fq2_sqrt_ev(out, zeta);
            fq2_sqrt_ev(out, -zeta);
            fq2_sqrt_ev(out, zeta * ws[(t as usize) % ws.len()]);
        }
    }
    // sweep: the zero-digit-square family and the conversion family as radicands (sqrt = pow: its squarings see these values first),
    // their squares, and as compressed x; x = q - i with both prefixes
    for v in poolq.vsq.iter().chain(poolq.cvt.iter().step_by(if a.tier == "thorough" { 1 } else { 3 })) {
        let x = Fq::from_slice(v).unwrap();
        fq_sqrt_ev(out, x);
        fq_sqrt_ev(out, x * x);
        fq2_sqrt_ev(out, Fq2::new(x, Fq::zero()));
        let mut c = vec![2u8];
        c.extend_from_slice(&x.to_slice());
        decode_ev::<G1>(out, "cmp", &c);
    }
    for i in 1u8..60 {
        for pre in [2u8, 3u8] {
            let mut c = vec![pre];
            c.extend_from_slice(&q_minus(i));
            decode_ev::<G1>(out, "cmp", &c);
        }
    }
    let mut k = 0u64;
    while !out.full() {
        k += 1;
        let r = if k % 2 == 0 { Fq::from_slice(&poolq.pick(&mut rng)).unwrap() } else { Fq::from_slice(&rand_bytes(&mut rng, 64)).unwrap() };
        let s = Fq::from_slice(&rand_bytes(&mut rng, 64)).unwrap();
        if let Some(zeta) = unit(Fq2::new(r, s)) {
            fq2_sqrt_ev(out, zeta);
            fq2_sqrt_ev(out, zeta * ws[rng.gen_range(0..ws.len())]);
        }
        // Fq: arbitrary element, a square, a square times the non-residue 2 ... (the specification decides by Euler)
        fq_sqrt_ev(out, r);
        fq_sqrt_ev(out, r * r);
        fq_sqrt_ev(out, -(r * r));
        // Fq2: zero imaginary part (residues and non-residues of Fq, both sides of q/2), purely imaginary, general
        fq2_sqrt_ev(out, Fq2::new(r, Fq::zero()));
        fq2_sqrt_ev(out, Fq2::new(-r, Fq::zero()));
        fq2_sqrt_ev(out, Fq2::new(r * r, Fq::zero()));
        fq2_sqrt_ev(out, Fq2::new(Fq::zero(), r));
        let z = Fq2::new(r, s);
        fq2_sqrt_ev(out, z);
        fq2_sqrt_ev(out, z * z);
        fq2_sqrt_ev(out, z * z * Fq2::new(Fq::zero(), Fq::one())); // a square times the non-square u
        if k % 4 == 0 {
            // compressed decoding must succeed for every x that carries a point: x of real points, both prefixes
            let p1 = valid_point::<G1>(&mut rng, &poolr);
            let e = p1.enc("cmp");
            for pre in [2u8, 3] {
                let mut v = e.clone();
                v[0] = pre;
                decode_ev::<G1>(out, "cmp", &v);
            }
            let p2 = valid_point::<G2>(&mut rng, &poolr);
            let e = p2.enc("cmp");
            for pre in [2u8, 3] {
                let mut v = e.clone();
                v[0] = pre;
                decode_ev::<G2>(out, "cmp", &v);
            }
            // arbitrary x in Fq with either prefix
            let mut v = vec![2 + (k % 2) as u8];
            v.extend_from_slice(&r.to_slice());
            decode_ev::<G1>(out, "cmp", &v);
        }
    }
}
