//! Group operands in every representation the properties quantify over:
//!   A   z = 1 (normalised)                     J   z != 1 produced by library arithmetic
//!   S   explicitly rescaled (l^2 x, l^3 y, l z) through the public constructor G::new
//!   Z0  canonical identity (0, 1, 0)           ZN  identity written (x, y, 0), left behind by P - P
#![allow(dead_code)]
use crate::common::*;
use rand::Rng;
use serde_json::{json, Value};
use sm9_core::*;

pub fn jac1(p: &G1) -> Value {
    json!([b(&p.x().to_slice()), b(&p.y().to_slice()), b(&p.z().to_slice())])
}
pub fn jac2(p: &G2) -> Value {
    json!([b(&p.x().to_slice()), b(&p.y().to_slice()), b(&p.z().to_slice())])
}

pub fn rand_fr<R: Rng>(rng: &mut R) -> Fr {
    let v = rand_bytes(rng, 64);
    Fr::from_slice(&v).unwrap()
}
pub fn rand_fq_nonzero<R: Rng>(rng: &mut R) -> Fq {
    loop {
        let v = rand_bytes(rng, 64);
        let x = Fq::from_slice(&v).unwrap();
        if !x.is_zero() {
            return x;
        }
    }
}
/// a primitive cube root of unity modulo r: g^((r-1)/3) for the first small g that does not give 1
pub fn cube_root_mod_r() -> Fr {
    let e = Fr::from_slice(&hex!("3cc0000000e137a5f201391aa72f97c16dfb866e5da383fa4c7a4b34478a450c")).unwrap();
    let mut g = Fr::one() + Fr::one();
    loop {
        let l = g.pow(e);
        if l != Fr::one() {
            return l;
        }
        g = g + Fr::one();
    }
}
/// scalars of interest: 0, 1, 2, r-1, r-2, (r+-1)/2, powers of two, 2^i - 1, sparse / dense patterns, Montgomery-boundary pool, random
pub fn pick_scalar<R: Rng>(rng: &mut R, pool: &Pool) -> Fr {
    let two = Fr::one() + Fr::one();
    match rng.gen_range(0..17) {
        16 => {
            // the eigenvalues of the order-3 endomorphism (x, y) -> (w x, y): l, l^2 = -1 - l, their negatives, 1 - l:
            // l*P shares its y with P, -l*P has the opposite y, and neither is P or -P
            let l = cube_root_mod_r();
            match rng.gen_range(0..6) { 0 => l, 1 => l * l, 2 => -l, 3 => -(l * l), 4 => Fr::one() - l, _ => l - Fr::one() }
        }
        0 => Fr::zero(),
        1 => Fr::one(),
        2 => two,
        3 => -Fr::one(),
        4 => -two,
        5 => two.inverse().unwrap(),            // (r+1)/2
        6 => -two.inverse().unwrap(),           // (r-1)/2
        7 => {
            let mut v = [0u8; 32];
            let i = rng.gen_range(0..255usize);
            v[31 - i / 8] = 1 << (i % 8);
            Fr::from_slice(&v).unwrap()
        }
        8 => {
            // 2^i - 1
            let mut v = [0u8; 32];
            let i = rng.gen_range(1..255usize);
            for j in 0..i {
                v[31 - j / 8] |= 1 << (j % 8);
            }
            Fr::from_slice(&v).unwrap()
        }
        9 => {
            // long zero / one runs
            let mut v = [0u8; 32];
            let (s, e) = (rng.gen_range(0..32usize), rng.gen_range(0..32usize));
            for j in s.min(e)..=s.max(e) {
                v[j] = 0xff;
            }
            Fr::from_slice(&v).unwrap()
        }
        10 => {
            let mut v = [0u8; 32];
            v[31] = rng.gen_range(0..20);
            Fr::from_slice(&v).unwrap()
        }
        11 => Fr::from_slice(&pool.pick(rng)).unwrap(),
        12 => {
            // 64-bit limb patterns of the canonical value: zero limbs below non-zero ones, all-ones limbs, single bits
            let mut v = [0u8; 32];
            for l in 0..4 {
                let limb: u64 = match rng.gen_range(0..6) { 0 | 1 => 0, 2 => 1, 3 => u64::MAX, 4 => 1u64 << 63, _ => rng.gen() };
                v[8 * l..8 * l + 8].copy_from_slice(&limb.to_be_bytes());
            }
            v[0] &= 0x7f;
            Fr::from_slice(&v).unwrap()
        }
        _ => rand_fr(rng),
    }
}

/// field elements whose MONTGOMERY representation is the integer m (m = 1: the element 2^-256 mod q)
pub fn mont_small(m: u8) -> Fq {
    let mut v = [0u8; 33];
    v[0] = 1; // 2^256
    let r = Fq::from_slice(&v).unwrap();
    let mut w = [0u8; 32];
    w[31] = m;
    Fq::from_slice(&w).unwrap() * r.inverse().unwrap()
}

// ---------------------------------------------------------------- representatives with a CHOSEN raw coordinate
// (X, Y, Z) ~ (l^2 X, l^3 Y, l Z): a raw coordinate can be steered to any value c for which c/X is a square (x), c/Y a cube (y),
// or freely (z).  Used to build operands whose raw coordinates coincide with small constants (Y = 1/2 makes the first doubling
// return the base's own z) or with the coordinates of ANOTHER operand (common-z additions, equal raw x or y of different points).
const CBRT_EXP_Q: [u8; 32] = hex!("28800000009625194c00d0bc6f750fd67952599ee970a6db8851b0b387d92be3");   // (2q+1)/9, q = 4 mod 9
const CBRT_EXP_Q2: [u8; 64] = hex!("0e6a9000006ae3e9425c5abd0425363b319c221ffdc95d55c1cd90293f08a91c503de4a47aa373cd0411f23c4be8776b1c1ce18d701421209859c091a2e28373"); // (q^2+2)/9, q^2 = 7 mod 9
pub fn fq_cbrt(c: Fq) -> Option<Fq> {
    let l = c.pow(Fq::from_slice(&CBRT_EXP_Q)?);
    if l * l * l == c { Some(l) } else { None }
}
pub fn fq2_inv(a: Fq2) -> Option<Fq2> {
    let (re, im) = (a.real(), a.imaginary());
    let n = (re * re + (im * im + im * im)).inverse()?;          // norm a0^2 + 2 a1^2 (u^2 = -2)
    Some(Fq2::new(re * n, -(im * n)))
}
pub fn fq2_pow_bytes(a: Fq2, e: &[u8]) -> Fq2 {
    let mut acc = Fq2::one();
    for byte in e {
        for i in (0..8).rev() {
            acc = acc * acc;
            if (byte >> i) & 1 == 1 {
                acc = acc * a;
            }
        }
    }
    acc
}
pub fn fq2_cbrt(c: Fq2) -> Option<Fq2> {
    let l = fq2_pow_bytes(c, &CBRT_EXP_Q2);
    if l * l * l == c { Some(l) } else { None }
}
pub fn g1_scale(p: G1, l: Fq) -> G1 {
    let l2 = l * l;
    G1::new(p.x() * l2, p.y() * l2 * l, p.z() * l)
}
pub fn g2_scale(p: G2, l: Fq2) -> G2 {
    let l2 = l * l;
    G2::new(p.x() * l2, p.y() * l2 * l, p.z() * l)
}
/// the representative of (non-identity) p whose raw coordinate `which` (0 x, 1 y, 2 z) is c, when there is one
pub fn g1_coord(p: G1, which: usize, c: Fq) -> Option<G1> {
    if p.is_zero() || c.is_zero() {
        return None;
    }
    let l = match which {
        0 => (c * p.x().inverse()?).sqrt()?,
        1 => fq_cbrt(c * p.y().inverse()?)?,
        _ => c * p.z().inverse()?,
    };
    let r = g1_scale(p, l);
    let got = [r.x(), r.y(), r.z()][which.min(2)];
    if got == c { Some(r) } else { None }
}
pub fn g2_coord(p: G2, which: usize, c: Fq2) -> Option<G2> {
    if p.is_zero() || c.is_zero() {
        return None;
    }
    let l = match which {
        0 => (c * fq2_inv(p.x())?).sqrt()?,
        1 => fq2_cbrt(c * fq2_inv(p.y())?)?,
        _ => c * fq2_inv(p.z())?,
    };
    let r = g2_scale(p, l);
    let got = [r.x(), r.y(), r.z()][which.min(2)];
    if got == c { Some(r) } else { None }
}
/// an element c0 + c1 u of Fq2 with norm c0^2 + 2 c1^2 = n and both components non-zero
pub fn norm_elem<R: Rng>(rng: &mut R, n: Fq) -> Option<Fq2> {
    for _ in 0..12 {
        let c1 = rand_fq_nonzero(rng);
        if let Some(c0) = (n - (c1 * c1 + c1 * c1)).sqrt() {
            if !c0.is_zero() {
                return Some(Fq2::new(if rng.gen() { c0 } else { -c0 }, c1));
            }
        }
    }
    None
}
/// the pool values whose MONTGOMERY representation is sparse: at least two of its four 64-bit limbs are zero (1 + k 2^192, 2^64 k,
/// single limbs ...) - the inputs on which limb-wise tests inside inversion (is_one, is_even, comparisons) can go wrong
pub fn sparse_mont(vals: &[Vec<u8>]) -> Vec<Fq> {
    let mut v33 = [0u8; 33];
    v33[0] = 1;
    let rr = Fq::from_slice(&v33).unwrap();
    let mut out = Vec::new();
    for vb in vals {
        if let Some(v) = Fq::from_slice(vb) {
            if v.is_zero() { continue; }
            let m = (v * rr).to_slice();
            if m.chunks(8).filter(|c| c.iter().all(|x| *x == 0)).count() >= 2 {
                out.push(v);
            }
        }
    }
    out
}
/// a sixth root of unity of Fq other than +-1: w, w^2, -w, -w^2 (w the primitive cube root of unity)
pub fn unity_root<R: Rng>(rng: &mut R) -> Fq {
    let three = Fq::one() + Fq::one() + Fq::one();
    let w = ((-three).sqrt().unwrap() - Fq::one()) * (Fq::one() + Fq::one()).inverse().unwrap();
    match rng.gen_range(0..4) { 0 => w, 1 => w * w, 2 => -w, _ => -(w * w) }
}
/// small constants a raw coordinate may coincide with: 1/2, -1/2, 1, -1, 2, and the element whose Montgomery limbs are 1
pub fn small_const<R: Rng>(rng: &mut R) -> Fq {
    let two = Fq::one() + Fq::one();
    match rng.gen_range(0..7) {
        0 | 1 => two.inverse().unwrap(),
        2 => -two.inverse().unwrap(),
        3 => Fq::one(),
        4 => -Fq::one(),
        5 => two,
        _ => mont_small(1),
    }
}
pub fn small_const2<R: Rng>(rng: &mut R) -> Fq2 {
    let c = small_const(rng);
    match rng.gen_range(0..4) {
        0 => Fq2::new(Fq::zero(), c),
        _ => Fq2::new(c, Fq::zero()),
    }
}

/// Elements w of Fq2 for which the product w^2 * w drives the accumulator of the two-term sum of products above 2^256 + q (two
/// subtractions of q needed) - found ahead of time by exact integer search (bin/vlib.py hiw_file, file named by SM9_VERIF_HIW).
/// A Jacobian representative with z = 1/w makes normalisation compute exactly this product.  Empty when the file is absent.
pub fn hi_w() -> &'static Vec<Fq2> {
    static W: std::sync::OnceLock<Vec<Fq2>> = std::sync::OnceLock::new();
    W.get_or_init(|| {
        let mut found = Vec::new();
        if let Ok(path) = std::env::var("SM9_VERIF_HIW") {
            if let Ok(txt) = std::fs::read_to_string(path) {
                if let Ok(v) = serde_json::from_str::<Value>(&txt) {
                    for w in v["w"].as_array().cloned().unwrap_or_default() {
                        if let Some(x) = Fq2::from_slice(&unb(&w)) {
                            found.push(x);
                        }
                    }
                }
            }
        }
        found
    })
}

/// the field element whose MONTGOMERY representation is the 256-bit integer m (big-endian)
pub fn mont_val(m: &[u8; 32]) -> Fq {
    let mut v = [0u8; 33];
    v[0] = 1; // 2^256
    Fq::from_slice(m).unwrap() * Fq::from_slice(&v).unwrap().inverse().unwrap()
}
/// differences that live in ONE 64-bit limb of the Montgomery representation: k * 2^(64 i), k in {1..8, 2^32, 2^63, 2^64 - 1}, and
/// their negatives - two values differing by such a delta agree on every other limb (modulo the borrow of the negative ones)
pub fn limb_deltas() -> Vec<Fq> {
    let mut out = Vec::new();
    for limb in 0..4usize {
        for k in [1u64, 2, 3, 4, 5, 6, 7, 8, 1 << 32, 1 << 63, u64::MAX] {
            let mut m = [0u8; 32];
            m[(3 - limb) * 8..(4 - limb) * 8].copy_from_slice(&k.to_be_bytes());
            let d = mont_val(&m);
            out.push(d);
            out.push(-d);
        }
    }
    out
}
pub fn fq2_sixth_root(t: Fq2) -> Option<Fq2> {
    fq2_cbrt(t.sqrt()?)
}

/// A Jacobian representative (X, Y, Z) of a point of E(Fq) built so that its NORMALISATION performs a chosen multiplication:
/// to_affine computes X * zinv^2; with (a, b) a TLC-generated operand pair (quotient-pattern / V-boundary family) and b a square,
/// zinv = sqrt(b), X = a, the affine x is a*b.  Returns None when b is not a square or a*b carries no point.
pub fn crafted_g1(pair: &(Vec<u8>, Vec<u8>)) -> Option<G1> {
    let (a, bq) = (Fq::from_slice(&pair.0)?, Fq::from_slice(&pair.1)?);
    let zinv = bq.sqrt()?;
    if zinv.is_zero() {
        return None;
    }
    let x = a * bq;
    let y = (x * x * x + G1::b()).sqrt()?;
    let z = zinv.inverse()?;
    let z3 = z * z * z;
    Some(G1::new(a, y * z3, z))
}

/// G1 representatives crafted from the TLC operand-pair families (quotient patterns, V-boundary pairs): their NORMALISATION performs
/// the designated Montgomery product (see crafted_g1); `budget` of them, the starting offset rotating with the seed
pub fn crafted_points(poolq: &Pool, seed: u64, budget: usize) -> Vec<G1> {
    let all: Vec<&(Vec<u8>, Vec<u8>)> = poolq.qpairs.iter().chain(poolq.vpairs.iter()).collect();
    let mut out = Vec::new();
    if all.is_empty() { return out; }
    // the high-limb pairs are few: all of them (up to half of the budget), either operand order
    for pr in poolq.hpairs.iter() {
        if out.len() >= budget / 2 { break; }
        if let Some(p) = crafted_g1(pr).or_else(|| crafted_g1(&(pr.1.clone(), pr.0.clone()))) { out.push(p); }
    }
    let stride = 7usize;
    let mut i = ((seed % 1000003) as usize * 13) % all.len();
    for _ in 0..all.len() {
        if out.len() >= budget { break; }
        if let Some(p) = crafted_g1(all[i]) { out.push(p); }
        i = (i + stride) % all.len();
    }
    out
}
/// values v with a small multiple near a multiple of q in the MONTGOMERY domain: m = -s / c (mod q), c in {2, 3, 4, 8}, s small or a
/// limb power - the repeated additions 2v, 3v, 4v, 8v of the group formulas then end just below / on / above q
pub fn mult_boundary() -> Vec<Fq> {
    let mut v33 = [0u8; 33];
    v33[0] = 1;
    let rinv = Fq::from_slice(&v33).unwrap().inverse().unwrap();
    let small = |k: u64, sh: usize| -> Fq { let mut b = [0u8; 32]; b[24 - 8 * sh..32 - 8 * sh].copy_from_slice(&k.to_be_bytes()); Fq::from_slice(&b).unwrap() };
    let mut out = Vec::new();
    for c in [2u64, 3, 4, 8] {
        let ci = small(c, 0).inverse().unwrap();
        for s in [small(1, 0), small(2, 0), small(5, 0), small(0x1234570, 0), small(1, 1), small(1, 2), small(u64::MAX, 0), small(u64::MAX, 1)] {
            out.push(-(s * ci) * rinv);
            out.push((s * ci) * rinv);
        }
    }
    out
}
/// the designated single-operand families as field elements: zero-digit / high-limb squares, residues just below q, small-multiple boundary
pub fn pattern_values(poolq: &Pool) -> Vec<Fq> {
    let mut v: Vec<Fq> = poolq.vsq.iter().chain(poolq.hi.iter()).filter_map(|b| Fq::from_slice(b)).collect();
    v.extend(mult_boundary());
    v
}
/// affine G1 points one of whose COORDINATES is a pattern value (x = v with y = sqrt(x^3 + 5); y = v with x = cbrt(y^2 - 5)):
/// doubling squares x and y, triples x^2, doubles y ... directly on these values
pub fn coord_points(poolq: &Pool, seed: u64, budget: usize) -> Vec<G1> {
    let vals = pattern_values(poolq);
    let mut out = Vec::new();
    if vals.is_empty() { return out; }
    let mut i = ((seed % 1000003) as usize * 19) % vals.len();
    for k in 0..2 * vals.len() {
        if out.len() >= budget { break; }
        let v = vals[i];
        if k % 2 == 0 {
            if let Some(y) = (v * v * v + G1::b()).sqrt() { out.push(G1::new(v, if k % 4 == 0 { y } else { -y }, Fq::one())); }
        } else if let Some(x) = fq_cbrt(v * v - G1::b()) {
            out.push(G1::new(x, v, Fq::one()));
        }
        if k % 2 == 1 { i = (i + 7) % vals.len(); }
    }
    out
}
/// pairs (P, P') of representatives of the SAME point such that comparing or adding them multiplies a TLC-designated operand pair
/// (a, b): P = (a, y, 1) affine with x = a, P' = (a b, y b^(3/2), sqrt b): x_P * z'^2 = a * b
pub fn eq_crafted(poolq: &Pool, seed: u64, budget: usize) -> Vec<(G1, G1)> {
    let all: Vec<&(Vec<u8>, Vec<u8>)> = poolq.qpairs.iter().chain(poolq.vpairs.iter()).collect();
    let mut out = Vec::new();
    if all.is_empty() { return out; }
    let hp: Vec<&(Vec<u8>, Vec<u8>)> = poolq.hpairs.iter().collect();
    let mut i = ((seed % 1000003) as usize * 23) % all.len();
    for k in 0..(all.len() + hp.len()) {
        if out.len() >= budget { break; }
        // the high-limb pairs first (up to half of the budget), then the rotating sample
        let pr = if k < hp.len() { if out.len() >= budget / 2 { continue; } hp[k] } else { all[i] };
        for (a, bq) in [(&pr.0, &pr.1), (&pr.1, &pr.0)] {
            let (a, bq) = (Fq::from_slice(a).unwrap(), Fq::from_slice(bq).unwrap());
            if let (Some(y), Some(l)) = ((a * a * a + G1::b()).sqrt(), bq.sqrt()) {
                if !l.is_zero() {
                    let p = G1::new(a, y, Fq::one());
                    out.push((p, g1_scale(p, l)));
                    break;
                }
            }
        }
        if k >= hp.len() { i = (i + 5) % all.len(); }
    }
    out
}
/// affine G1 points one of whose coordinates has a pattern value as its SQUARE (x = sqrt v or y = sqrt v): doubling then triples,
/// doubles and quadruples exactly v
pub fn sq_coord_points(poolq: &Pool, seed: u64, budget: usize) -> Vec<G1> {
    let mut vals = mult_boundary();
    vals.extend(poolq.hi.iter().filter_map(|b| Fq::from_slice(b)));
    let mut out = Vec::new();
    let n = vals.len();
    for k in 0..2 * n {
        if out.len() >= budget { break; }
        let v = vals[(k / 2 + (seed % 1000003) as usize * 3) % n];
        if let Some(s) = v.sqrt() {
            if k % 2 == 0 {
                if let Some(y) = (s * s * s + G1::b()).sqrt() { out.push(G1::new(s, y, Fq::one())); }
            } else if let Some(x) = fq_cbrt(v - G1::b()) {
                out.push(G1::new(x, s, Fq::one()));
            }
        }
    }
    out
}
/// process-wide list of pattern z values (filled once by a suite that has the pool at hand; empty otherwise)
pub static PATTERN_ZS: std::sync::OnceLock<Vec<Fq>> = std::sync::OnceLock::new();
pub fn pattern_z<R: Rng>(rng: &mut R) -> Option<Fq> {
    PATTERN_ZS.get().and_then(|v| if v.is_empty() { None } else { Some(v[rng.gen_range(0..v.len())]) })
}
/// z values whose INVERSE has a designated Montgomery pattern: 1/v for v in the zero-digit-square family (to_affine squares 1/z) and
/// for pool values with a zero Montgomery limb
pub fn inv_pattern_zs(poolq: &Pool, seed: u64, budget: usize) -> Vec<Fq> {
    let mut v33 = [0u8; 33];
    v33[0] = 1;
    let rr = Fq::from_slice(&v33).unwrap();
    let zero_limb = |v: &Fq| -> bool { (*v * rr).to_slice().chunks(8).any(|c| c.iter().all(|x| *x == 0)) };
    // two thirds of the budget from the zero-digit-square family, one third from the zero-limb pool values
    let fam1: Vec<Fq> = poolq.sqhigh.iter().chain(poolq.vsq.iter()).filter_map(|b| Fq::from_slice(b)).collect();
    let fam2: Vec<Fq> = poolq.vals.iter().filter_map(|b| Fq::from_slice(b)).filter(|v| zero_limb(v)).collect();
    let mut out = Vec::new();
    // values whose SQUARE is a pattern (1/z)^2 = v, z^2 = v: v just below q, v with a small multiple on a multiple of q
    {
        let mut vs = mult_boundary();
        vs.extend(poolq.hi.iter().filter_map(|b| Fq::from_slice(b)));
        let n = vs.len();
        let mut k = 0;
        for j in 0..n {
            if k >= budget / 6 { break; }
            if let Some(sq) = vs[(j + (seed % 1000003) as usize * 5) % n].sqrt() {
                if let Some(inv) = sq.inverse() { out.push(if k % 3 == 2 { sq } else { inv }); k += 1; }
            }
        }
    }
    for (cands, share) in [(&fam1, budget - budget / 3), (&fam2, budget / 3)] {
        if cands.is_empty() { continue; }
        let mut i = ((seed % 1000003) as usize * 17) % cands.len();
        let mut n = 0;
        for _ in 0..cands.len() {
            if n >= share { break; }
            if let Some(z) = cands[i].inverse() { out.push(if n % 4 == 3 { cands[i] } else { z }); n += 1; }   // every fourth: z = v itself (z^2 in add / ==)
            i = (i + 11) % cands.len();
        }
    }
    out
}
/// canonical 256-bit patterns whose four 64-bit limbs are drawn from {0, 1, 2^63, 2^64-1, m_i, m_i - 1, m_i + 1} (m the modulus):
/// scalars and exponents are WALKED in canonical form, so this is the boundary family of every bit- or limb-wise scalar loop
pub fn canon_patterns(modulus: &[u8]) -> Vec<[u8; 32]> {
    let mut sets: Vec<Vec<u64>> = Vec::new();
    for i in 0..4 {
        let mut w = [0u8; 8];
        w.copy_from_slice(&modulus[(3 - i) * 8..(4 - i) * 8]);       // limb i, little-endian limb order
        let m = u64::from_be_bytes(w);
        let mut s = vec![0u64, 1, 1 << 63, u64::MAX, m, m.wrapping_sub(1), m.wrapping_add(1)];
        s.sort();
        s.dedup();
        sets.push(s);
    }
    let mut out = Vec::new();
    for &l3 in &sets[3] { for &l2 in &sets[2] { for &l1 in &sets[1] { for &l0 in &sets[0] {
        let mut v = [0u8; 32];
        v[0..8].copy_from_slice(&l3.to_be_bytes());
        v[8..16].copy_from_slice(&l2.to_be_bytes());
        v[16..24].copy_from_slice(&l1.to_be_bytes());
        v[24..32].copy_from_slice(&l0.to_be_bytes());
        if v[..] < modulus[..] { out.push(v); }
    } } } }
    out
}
pub fn r_modulus() -> Vec<u8> {
    let mut v = (-Fr::one()).to_slice().to_vec();
    for i in (0..32).rev() { v[i] = v[i].wrapping_add(1); if v[i] != 0 { break; } }
    v
}
pub const TAGS: [&str; 5] = ["A", "J", "S", "Z0", "ZN"];
/// number of rescaling classes of the "S" representatives (see g1_rep / g2_rep); `*_rep_class` forces one of them
pub const G1_NSEL: usize = 10;
pub const G2_NSEL: usize = 22;
thread_local! {
    static G1_SEL: std::cell::Cell<Option<usize>> = const { std::cell::Cell::new(None) };
    static G2_SEL: std::cell::Cell<Option<usize>> = const { std::cell::Cell::new(None) };
}
/// the "S" representative of p in rescaling class `sel` (deterministic sweep of the classes, instead of drawing one)
pub fn g1_rep_class<R: Rng>(rng: &mut R, p: G1, sel: usize) -> G1 {
    G1_SEL.with(|c| c.set(Some(sel % G1_NSEL)));
    let r = g1_rep(rng, p, "S");
    G1_SEL.with(|c| c.set(None));
    r
}
pub fn g2_rep_class<R: Rng>(rng: &mut R, p: G2, sel: usize) -> G2 {
    G2_SEL.with(|c| c.set(Some(sel % G2_NSEL)));
    let r = g2_rep(rng, p, "S");
    G2_SEL.with(|c| c.set(None));
    r
}

pub fn g1_rep<R: Rng>(rng: &mut R, p: G1, tag: &str) -> G1 {
    if p.is_zero() {
        return match tag {
            "Z0" | "A" => G1::zero(),
            "S" => {
                // arbitrary (x, y, 0), including vanishing coordinates: (0, 0, 0), (x, 0, 0), (0, y, 0)
                let (x, y) = (rand_fq_nonzero(rng), rand_fq_nonzero(rng));
                match rng.gen_range(0..6) {
                    0 => G1::new(Fq::zero(), Fq::zero(), Fq::zero()),
                    1 => G1::new(x, Fq::zero(), Fq::zero()),
                    2 => G1::new(Fq::zero(), y, Fq::zero()),
                    _ => G1::new(x, y, Fq::zero()),
                }
            }
            _ => {
                let t = G1::one() * rand_fr(rng);
                t - t
            }
        };
    }
    match tag {
        "A" | "Z0" => {
            let mut q = p;
            q.normalize();
            q
        }
        "S" => {
            let sel = G1_SEL.with(|c| c.replace(None)).unwrap_or_else(|| rng.gen_range(0..G1_NSEL));
            if sel == 6 || sel == 7 {
                // a raw x or y coordinate steered to a small constant (when such a representative exists)
                let (which, c) = (rng.gen_range(0..3usize).min(1), small_const(rng));
                if let Some(r) = g1_coord(p, which, c) {
                    return r;
                }
            }
            let l = match sel {
                0 => Fq::one() + Fq::one(),
                1 => -Fq::one(),
                8 => unity_root(rng),                       // l^3 = +-1: the raw y (up to sign) is unchanged, z^6 = 1
                9 => mont_small(1),                         // exactly the element whose Montgomery limbs are [1, 0, 0, 0]
                2 => mont_small(rng.gen_range(1..4)),       // z whose Montgomery limbs are a tiny integer
                _ => rand_fq_nonzero(rng),
            };
            // half of the time the rescaling starts from the normalised point, so that z is exactly lambda
            let mut p = p;
            if rng.gen() {
                p.normalize();
            }
            let l2 = l * l;
            G1::new(p.x() * l2, p.y() * l2 * l, p.z() * l)
        }
        _ => {
            // library Jacobian: go through an unrelated point and come back
            let t = G1::one() * rand_fr(rng);
            (p + t) - t
        }
    }
}
pub fn rand_fq2_nonzero<R: Rng>(rng: &mut R) -> Fq2 {
    Fq2::new(rand_fq_nonzero(rng), rand_fq_nonzero(rng))
}
pub fn g2_rep<R: Rng>(rng: &mut R, p: G2, tag: &str) -> G2 {
    if p.is_zero() {
        return match tag {
            "Z0" | "A" => G2::zero(),
            "S" => {
                let (x, y) = (rand_fq2_nonzero(rng), rand_fq2_nonzero(rng));
                match rng.gen_range(0..6) {
                    0 => G2::new(Fq2::zero(), Fq2::zero(), Fq2::zero()),
                    1 => G2::new(x, Fq2::zero(), Fq2::zero()),
                    2 => G2::new(Fq2::zero(), y, Fq2::zero()),
                    _ => G2::new(x, y, Fq2::zero()),
                }
            }
            _ => {
                let t = G2::one() * rand_fr(rng);
                t - t
            }
        };
    }
    match tag {
        "A" | "Z0" => {
            let mut q = p;
            q.normalize();
            q
        }
        "S" => {
            // lambda: 2, -1, i, a purely imaginary element, a real element, a general element
            // (z shares a component with a special constant without being it: real part 1, imaginary part 1, real part 0 ...)
            let sel = G2_SEL.with(|c| c.replace(None)).unwrap_or_else(|| rng.gen_range(0..G2_NSEL));
            if sel == 19 && !hi_w().is_empty() {
                // z = 1/w with w, w^2 in the top class of the sum-of-products accumulator
                let ws = hi_w();
                if let Some(l) = fq2_inv(ws[rng.gen_range(0..ws.len())]) {
                    let mut p = p;
                    p.normalize();
                    return g2_scale(p, l);
                }
            }
            if (16..=18).contains(&sel) {
                // z of prescribed NORM (the first quantity Fq2::inverse computes, handed to the Fq inversion): 1, -1, 4, 1/4, 2^-256 ...
                let n = match rng.gen_range(0..5) {
                    0 | 1 => Fq::one(),
                    2 => mont_small(rng.gen_range(1..3)),
                    _ => small_const(rng),
                };
                if let Some(l) = norm_elem(rng, n) {
                    let mut p = p;
                    p.normalize();
                    return g2_scale(p, l);
                }
            } else if (13..=15).contains(&sel) {
                let (which, c) = (rng.gen_range(0..3usize).min(1), small_const2(rng));
                if let Some(r) = g2_coord(p, which, c) {
                    return r;
                }
            }
            let l = match sel {
                20 => Fq2::new(unity_root(rng), Fq::zero()),
                21 => Fq2::new(mont_small(1), Fq::zero()),
                11 => Fq2::new(mont_small(rng.gen_range(1..4)), Fq::zero()),
                12 => Fq2::new(Fq::zero(), mont_small(1)),
                0 => Fq2::one() + Fq2::one(),
                1 => -Fq2::one(),
                2 => Fq2::new(Fq::zero(), Fq::one()),
                3 => Fq2::new(Fq::zero(), rand_fq_nonzero(rng)),
                4 => Fq2::new(rand_fq_nonzero(rng), Fq::zero()),
                5 => Fq2::new(Fq::one(), rand_fq_nonzero(rng)),
                6 => Fq2::new(Fq::one(), Fq::one()),
                7 => Fq2::new(rand_fq_nonzero(rng), Fq::one()),
                8 => Fq2::new(-Fq::one(), rand_fq_nonzero(rng)),
                9 | 10 => rand_fq2_nonzero(rng),
                _ => rand_fq2_nonzero(rng),
            };
            // half of the time the rescaling starts from the normalised point, so that z is exactly lambda
            let mut p = p;
            if rng.gen() {
                p.normalize();
            }
            let l2 = l * l;
            G2::new(p.x() * l2, p.y() * l2 * l, p.z() * l)
        }
        _ => {
            let t = G2::one() * rand_fr(rng);
            (p + t) - t
        }
    }
}
pub fn pick_tag<R: Rng>(rng: &mut R) -> &'static str {
    ["A", "J", "S"][rng.gen_range(0..3)]
}
pub fn pick_ztag<R: Rng>(rng: &mut R) -> &'static str {
    ["Z0", "ZN", "S"][rng.gen_range(0..3)]
}
