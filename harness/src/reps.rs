//! Group operands in every representation the properties quantify over:
//!   A   z = 1 (normalised)                     J   z != 1 produced by library arithmetic
//!   S   explicitly rescaled (l^2 x, l^3 y, l z) through the public constructor G::new
//!   Z0  canonical identity (0, 1, 0)           ZN  identity written (x, y, 0), left behind by P - P
#![allow(dead_code)]
use crate::common::*;
use rand::Rng;
use serde_json::{json, Value};
use sm9_core::*;

pub fn jac1(p: &G1) -> Value {
    json!([b(&p.x().to_slice()), b(&p.y().to_slice()), b(&p.z().to_slice())])
}
pub fn jac2(p: &G2) -> Value {
    json!([b(&p.x().to_slice()), b(&p.y().to_slice()), b(&p.z().to_slice())])
}

pub fn rand_fr<R: Rng>(rng: &mut R) -> Fr {
    let v = rand_bytes(rng, 64);
    Fr::from_slice(&v).unwrap()
}
pub fn rand_fq_nonzero<R: Rng>(rng: &mut R) -> Fq {
    loop {
        let v = rand_bytes(rng, 64);
        let x = Fq::from_slice(&v).unwrap();
        if !x.is_zero() {
            return x;
        }
    }
}
/// scalars of interest: 0, 1, 2, r-1, r-2, (r+-1)/2, powers of two, 2^i - 1, sparse / dense patterns, Montgomery-boundary pool, random
pub fn pick_scalar<R: Rng>(rng: &mut R, pool: &Pool) -> Fr {
    let two = Fr::one() + Fr::one();
    match rng.gen_range(0..16) {
        0 => Fr::zero(),
        1 => Fr::one(),
        2 => two,
        3 => -Fr::one(),
        4 => -two,
        5 => two.inverse().unwrap(),            // (r+1)/2
        6 => -two.inverse().unwrap(),           // (r-1)/2
        7 => {
            let mut v = [0u8; 32];
            let i = rng.gen_range(0..255usize);
            v[31 - i / 8] = 1 << (i % 8);
            Fr::from_slice(&v).unwrap()
        }
        8 => {
            // 2^i - 1
            let mut v = [0u8; 32];
            let i = rng.gen_range(1..255usize);
            for j in 0..i {
                v[31 - j / 8] |= 1 << (j % 8);
            }
            Fr::from_slice(&v).unwrap()
        }
        9 => {
            // long zero / one runs
            let mut v = [0u8; 32];
            let (s, e) = (rng.gen_range(0..32usize), rng.gen_range(0..32usize));
            for j in s.min(e)..=s.max(e) {
                v[j] = 0xff;
            }
            Fr::from_slice(&v).unwrap()
        }
        10 => {
            let mut v = [0u8; 32];
            v[31] = rng.gen_range(0..20);
            Fr::from_slice(&v).unwrap()
        }
        11 => Fr::from_slice(&pool.pick(rng)).unwrap(),
        12 => {
            // 64-bit limb patterns of the canonical value: zero limbs below non-zero ones, all-ones limbs, single bits
            let mut v = [0u8; 32];
            for l in 0..4 {
                let limb: u64 = match rng.gen_range(0..6) { 0 | 1 => 0, 2 => 1, 3 => u64::MAX, 4 => 1u64 << 63, _ => rng.gen() };
                v[8 * l..8 * l + 8].copy_from_slice(&limb.to_be_bytes());
            }
            v[0] &= 0x7f;
            Fr::from_slice(&v).unwrap()
        }
        _ => rand_fr(rng),
    }
}

/// field elements whose MONTGOMERY representation is the integer m (m = 1: the element 2^-256 mod q)
pub fn mont_small(m: u8) -> Fq {
    let mut v = [0u8; 33];
    v[0] = 1; // 2^256
    let r = Fq::from_slice(&v).unwrap();
    let mut w = [0u8; 32];
    w[31] = m;
    Fq::from_slice(&w).unwrap() * r.inverse().unwrap()
}

/// A Jacobian representative (X, Y, Z) of a point of E(Fq) built so that its NORMALISATION performs a chosen multiplication:
/// to_affine computes X * zinv^2; with (a, b) a TLC-generated operand pair (quotient-pattern / V-boundary family) and b a square,
/// zinv = sqrt(b), X = a, the affine x is a*b.  Returns None when b is not a square or a*b carries no point.
pub fn crafted_g1(pair: &(Vec<u8>, Vec<u8>)) -> Option<G1> {
    let (a, bq) = (Fq::from_slice(&pair.0)?, Fq::from_slice(&pair.1)?);
    let zinv = bq.sqrt()?;
    if zinv.is_zero() {
        return None;
    }
    let x = a * bq;
    let y = (x * x * x + G1::b()).sqrt()?;
    let z = zinv.inverse()?;
    let z3 = z * z * z;
    Some(G1::new(a, y * z3, z))
}

pub const TAGS: [&str; 5] = ["A", "J", "S", "Z0", "ZN"];

pub fn g1_rep<R: Rng>(rng: &mut R, p: G1, tag: &str) -> G1 {
    if p.is_zero() {
        return match tag {
            "Z0" | "A" => G1::zero(),
            "S" => G1::new(rand_fq_nonzero(rng), rand_fq_nonzero(rng), Fq::zero()), // arbitrary (x, y, 0)
            _ => {
                let t = G1::one() * rand_fr(rng);
                t - t
            }
        };
    }
    match tag {
        "A" | "Z0" => {
            let mut q = p;
            q.normalize();
            q
        }
        "S" => {
            let l = match rng.gen_range(0..6) {
                0 => Fq::one() + Fq::one(),
                1 => -Fq::one(),
                2 => mont_small(rng.gen_range(1..4)),       // z whose Montgomery limbs are a tiny integer
                _ => rand_fq_nonzero(rng),
            };
            // half of the time the rescaling starts from the normalised point, so that z is exactly lambda
            let mut p = p;
            if rng.gen() {
                p.normalize();
            }
            let l2 = l * l;
            G1::new(p.x() * l2, p.y() * l2 * l, p.z() * l)
        }
        _ => {
            // library Jacobian: go through an unrelated point and come back
            let t = G1::one() * rand_fr(rng);
            (p + t) - t
        }
    }
}
pub fn rand_fq2_nonzero<R: Rng>(rng: &mut R) -> Fq2 {
    Fq2::new(rand_fq_nonzero(rng), rand_fq_nonzero(rng))
}
pub fn g2_rep<R: Rng>(rng: &mut R, p: G2, tag: &str) -> G2 {
    if p.is_zero() {
        return match tag {
            "Z0" | "A" => G2::zero(),
            "S" => G2::new(rand_fq2_nonzero(rng), rand_fq2_nonzero(rng), Fq2::zero()),
            _ => {
                let t = G2::one() * rand_fr(rng);
                t - t
            }
        };
    }
    match tag {
        "A" | "Z0" => {
            let mut q = p;
            q.normalize();
            q
        }
        "S" => {
            // lambda: 2, -1, i, a purely imaginary element, a real element, a general element
            // (z shares a component with a special constant without being it: real part 1, imaginary part 1, real part 0 ...)
            let l = match rng.gen_range(0..13) {
                11 => Fq2::new(mont_small(rng.gen_range(1..4)), Fq::zero()),
                12 => Fq2::new(Fq::zero(), mont_small(1)),
                0 => Fq2::one() + Fq2::one(),
                1 => -Fq2::one(),
                2 => Fq2::new(Fq::zero(), Fq::one()),
                3 => Fq2::new(Fq::zero(), rand_fq_nonzero(rng)),
                4 => Fq2::new(rand_fq_nonzero(rng), Fq::zero()),
                5 => Fq2::new(Fq::one(), rand_fq_nonzero(rng)),
                6 => Fq2::new(Fq::one(), Fq::one()),
                7 => Fq2::new(rand_fq_nonzero(rng), Fq::one()),
                8 => Fq2::new(-Fq::one(), rand_fq_nonzero(rng)),
                9 | 10 => rand_fq2_nonzero(rng),
                _ => rand_fq2_nonzero(rng),
            };
            // half of the time the rescaling starts from the normalised point, so that z is exactly lambda
            let mut p = p;
            if rng.gen() {
                p.normalize();
            }
            let l2 = l * l;
            G2::new(p.x() * l2, p.y() * l2 * l, p.z() * l)
        }
        _ => {
            let t = G2::one() * rand_fr(rng);
            (p + t) - t
        }
    }
}
pub fn pick_tag<R: Rng>(rng: &mut R) -> &'static str {
    ["A", "J", "S"][rng.gen_range(0..3)]
}
pub fn pick_ztag<R: Rng>(rng: &mut R) -> &'static str {
    ["Z0", "ZN", "S"][rng.gen_range(0..3)]
}
