//! Suite "conv" (C13): byte, decimal and hash conversions; to_slice / to_big_endian; set_bit.
use crate::common::*;
use crate::outs;
use crate::Args;
use rand::Rng;
use serde_json::{json, Value};
use sm9_core::*;

fn q_bytes() -> Vec<u8> {
    // the modulus itself, obtained as (q-1) + 1 on bytes (no library arithmetic on the value q, which is not representable)
    let mut v = (-Fq::one()).to_slice().to_vec();
    inc(&mut v);
    v
}
fn r_bytes() -> Vec<u8> {
    let mut v = (-Fr::one()).to_slice().to_vec();
    inc(&mut v);
    v
}
fn inc(v: &mut [u8]) {
    for i in (0..v.len()).rev() {
        v[i] = v[i].wrapping_add(1);
        if v[i] != 0 {
            break;
        }
    }
}
fn dec(v: &mut [u8]) {
    for i in (0..v.len()).rev() {
        v[i] = v[i].wrapping_sub(1);
        if v[i] != 0xff {
            break;
        }
    }
}
/// big-endian schoolbook multiplication of a byte string by a small integer, fixed output length
fn mul_small(v: &[u8], m: u64, len: usize) -> Vec<u8> {
    let mut out = vec![0u8; len];
    let mut carry: u128 = 0;
    for i in 0..len {
        let d = if i < v.len() { v[v.len() - 1 - i] as u128 } else { 0 };
        let t = d * (m as u128) + carry;
        out[len - 1 - i] = (t & 0xff) as u8;
        carry = t >> 8;
    }
    out
}

fn from_slice_ev(out: &mut Out, f: &str, input: &[u8]) {
    match f {
        "Fq" => {
            out.call("f.from_slice", json!({"F": f, "in": b(input)}), || outs! {"out" => opt_bytes(Fq::from_slice(input).map(|x| x.to_slice()))});
            out.call("f.try_from", json!({"F": f, "in": b(input)}), || outs! {"out" => opt_bytes(Fq::try_from(input).ok().map(|x| x.to_slice()))});
        }
        _ => {
            out.call("f.from_slice", json!({"F": f, "in": b(input)}), || outs! {"out" => opt_bytes(Fr::from_slice(input).map(|x| x.to_slice()))});
            out.call("f.try_from", json!({"F": f, "in": b(input)}), || outs! {"out" => opt_bytes(Fr::try_from(input).ok().map(|x| x.to_slice()))});
        }
    }
    if input.len() == 64 {
        let mut a = [0u8; 64];
        a.copy_from_slice(input);
        match f {
            "Fq" => out.call("f.interpret", json!({"F": f, "in": b(input)}), || outs! {"out" => some(b(&Fq::interpret(&a).to_slice()))}),
            _ => out.call("f.interpret", json!({"F": f, "in": b(input)}), || outs! {"out" => some(b(&Fr::interpret(&a).to_slice()))}),
        };
    }
}

fn from_str_ev(out: &mut Out, f: &str, s: &str) {
    let cps: Vec<Value> = s.chars().map(|c| Value::from(c as u32)).collect();
    match f {
        "Fq" => out.call("f.from_str", json!({"F": f, "in": cps}), || outs! {"out" => opt_bytes(Fq::from_str(s).ok().map(|x| x.to_slice()))}),
        _ => out.call("f.from_str", json!({"F": f, "in": cps}), || outs! {"out" => opt_bytes(Fr::from_str(s).ok().map(|x| x.to_slice()))}),
    };
}

fn rand_digits<R: Rng>(rng: &mut R, n: usize) -> String {
    (0..n).map(|_| (b'0' + rng.gen_range(0..10)) as char).collect()
}

pub fn run(a: &Args, out: &mut Out) {
    let mut rng = rng_from(a.seed, "conv");
    let thorough = a.tier == "thorough";
    let (q, r) = (q_bytes(), r_bytes());
    let mut rm1 = r.clone();
    dec(&mut rm1);
    // ---- from_slice / try_from / interpret: every length 0..=70, several fills
    for f in ["Fq", "Fr"] {
        let p = if f == "Fq" { &q } else { &r };
        for len in 0..=70usize {
            let mut fills: Vec<Vec<u8>> = vec![vec![0u8; len], vec![0xffu8; len], rand_bytes(&mut rng, len)];
            if len >= 1 {
                let mut v = vec![0u8; len];
                v[0] = 0x80;
                fills.push(v);
                let mut v = rand_bytes(&mut rng, len);
                v[0] = 0;
                fills.push(v);
            }
            if len >= 32 {
                // p-1, p, p+1 and 2^256-1 right-aligned in len bytes
                for delta in 0..3 {
                    let mut v = vec![0u8; len];
                    v[len - 32..].copy_from_slice(p);
                    match delta {
                        0 => dec(&mut v),
                        2 => inc(&mut v),
                        _ => {}
                    }
                    fills.push(v);
                }
                let mut v = vec![0u8; len];
                for x in v[len - 32..].iter_mut() {
                    *x = 0xff;
                }
                fills.push(v);
            }
            if len > 32 && len <= 64 {
                // multiples of p and of r-1 close to the top of the len-byte range, +-1
                for base in [p.clone(), rm1.clone()] {
                    let top_bits = 8 * (len - 32);
                    let m: u64 = if top_bits >= 64 { u64::MAX } else { (1u64 << top_bits) - 1 };
                    let m = m.saturating_sub(rng.gen_range(0..3));
                    let mult = mul_small(&base, m, len + 8);
                    if mult[..8].iter().all(|x| *x == 0) {
                        let v = mult[8..].to_vec();
                        let (mut lo, mut hi) = (v.clone(), v.clone());
                        dec(&mut lo);
                        inc(&mut hi);
                        fills.push(v);
                        fills.push(lo);
                        fills.push(hi);
                    }
                }
            }
            for v in fills {
                from_slice_ev(out, f, &v);
            }
        }
    }
    // ---- from_hash: every length 0..=70; residues 0, r-2, r-1 modulo r-1
    for len in 0..=70usize {
        let mut ins: Vec<Vec<u8>> = vec![vec![0u8; len], vec![0xffu8; len], rand_bytes(&mut rng, len)];
        if len >= 32 {
            for delta in 0..3 {
                let mut v = vec![0u8; len];
                v[len - 32..].copy_from_slice(&rm1);
                match delta {
                    0 => dec(&mut v),
                    2 => inc(&mut v),
                    _ => {}
                }
                ins.push(v);
            }
        }
        if len > 32 && len <= 64 {
            let top_bits = 8 * (len - 32);
            let m: u64 = if top_bits >= 64 { u64::MAX } else { (1u64 << top_bits) - 1 };
            let mult = mul_small(&rm1, m.saturating_sub(rng.gen_range(0..5)), len + 8);
            if mult[..8].iter().all(|x| *x == 0) {
                let v = mult[8..].to_vec();
                let (mut lo, mut hi) = (v.clone(), v.clone());
                dec(&mut lo);
                inc(&mut hi);
                ins.extend([v, lo, hi]);
            }
        }
        for v in ins {
            out.call("f.from_hash", json!({"in": b(&v)}), || outs! {"out" => opt_bytes(Fr::from_hash(&v).map(|x| x.to_slice()))});
        }
    }
    // ---- from_str
    let mut strs: Vec<String> = vec![
        "0".into(), "1".into(), "5".into(), "10".into(), "00000000000000000000000000000000000000007".into(),
        "-1".into(), "+1".into(), " 1".into(), "1 ".into(), "1_000".into(), "0x10".into(), "1e3".into(), "١٢٣".into(), "１２".into(),
        "12a".into(), "a12".into(), "1.5".into(), "\u{0}".into(), "9".repeat(160), "9".repeat(78), "1".to_string() + &"0".repeat(77),
        // q, r, q-1, r-1, q+1 in decimal
        "82434016654300679721217353503190038836571781811386228921167322412819029493183".into(),
        "82434016654300679721217353503190038836284668564296686430114510052556401373769".into(),
        "82434016654300679721217353503190038836571781811386228921167322412819029493182".into(),
        "82434016654300679721217353503190038836284668564296686430114510052556401373768".into(),
        "82434016654300679721217353503190038836571781811386228921167322412819029493184".into(),
        "115792089237316195423570985008687907853269984665640564039457584007913129639935".into(),
        "115792089237316195423570985008687907853269984665640564039457584007913129639936".into(),
    ];
    let nrand = if thorough { 400 } else { 60 };
    for _ in 0..nrand {
        let n = rng.gen_range(1..=160);
        let s = rand_digits(&mut rng, n);
        strs.push(s.clone());
        // a non-digit at a random position
        let pos = rng.gen_range(0..n);
        let bad = ['a', ' ', '-', '+', '.', '/', ':', '٣', '\u{ff11}', 'é', '\n'][rng.gen_range(0..11)];
        let t: String = s.chars().enumerate().map(|(i, c)| if i == pos { bad } else { c }).collect();
        strs.push(t);
    }
    // non-digit at every position of a fixed string
    let base = "123456789012345678901234567890";
    for pos in 0..base.len() {
        let t: String = base.chars().enumerate().map(|(i, c)| if i == pos { 'x' } else { c }).collect();
        strs.push(t);
    }
    // alias classes: characters whose code point truncated to 7, 8, 16 or 20 bits (or shifted by a power of two) is an ASCII
    // digit, the characters adjacent to the digit range, digits of other radices and of other scripts; each at the start,
    // in the middle and at the end of a digit string
    let mut alias: Vec<char> = Vec::new();
    for d in 0x30u32..=0x39 {
        for k in [0x80u32, 0x100, 0x200, 0x400, 0x800, 0x1000, 0x4E00, 0xFF00 - 0x20, 0x10000, 0x1F600, 0x20000, 0x100000] {
            if let Some(c) = char::from_u32(d + k) {
                alias.push(c);
            }
        }
    }
    for c in ['/', ':', 'A', 'F', 'a', 'f', 'z', 'Z', '\u{b2}', '\u{b3}', '\u{b9}', '\u{2070}', '\u{2080}', '\u{660}', '\u{6f0}', '\u{966}', '\u{ff10}', '\u{ff19}', '\u{1d7ce}', '\u{2460}', '\u{216b}', '\u{7f}', '\u{1}'] {
        alias.push(c);
    }
    for c in &alias {
        strs.push(format!("{}12", c));
        strs.push(format!("1{}2", c));
        strs.push(format!("12{}", c));
        strs.push(c.to_string());
    }
    for s in &strs {
        from_str_ev(out, "Fq", s);
        from_str_ev(out, "Fr", s);
    }
    // ---- to_slice round trip, to_big_endian with every buffer length, set_bit for every index
    let pool_q = load_pool(&a.pool, "Fq");
    let pool_r = load_pool(&a.pool, "Fr");
    let nvals = if thorough { 60 } else { 8 };
    for i in 0..nvals {
        let vq = if i % 2 == 0 { pool_q.pick(&mut rng) } else { rand_bytes(&mut rng, 32) };
        let x = Fq::from_slice(&vq).unwrap();
        let sx = x.to_slice();
        out.call("f.roundtrip", json!({"F": "Fq", "a": b(&sx)}), || {
            // the From / TryFrom conversions are the same functions under other names
            let via_from: [u8; 32] = x.into();
            let f2 = Fq2::new(x, Fq::one());
            let f2b: [u8; 64] = f2.into();
            let ok = via_from == x.to_slice() && f2b == f2.to_slice() && Fq2::try_from(&f2b[..]).ok() == Some(f2) && Fq2::try_from(&f2b[..63]).is_err();
            outs! {"out" => opt_bytes(Fq::from_slice(&x.to_slice()).map(|y| y.to_slice())), "same" => Value::Bool(Fq::from_slice(&x.to_slice()) == Some(x) && ok)}
        });
        let vr = if i % 2 == 0 { pool_r.pick(&mut rng) } else { rand_bytes(&mut rng, 32) };
        let y = Fr::from_slice(&vr).unwrap();
        let sy = y.to_slice();
        out.call("f.roundtrip", json!({"F": "Fr", "a": b(&sy)}), || {
            let via_from: [u8; 32] = y.into();
            let via_ref: [u8; 32] = (&y).into();
            let ok = via_from == y.to_slice() && via_ref == y.to_slice();
            outs! {"out" => opt_bytes(Fr::from_slice(&y.to_slice()).map(|z| z.to_slice())), "same" => Value::Bool(Fr::from_slice(&y.to_slice()) == Some(y) && ok)}
        });
        let lens: Vec<usize> = if i == 0 || thorough { (0..=70).collect() } else { vec![0, 1, 31, 32, 33, 64] };
        for len in lens {
            out.call("f.to_big_endian", json!({"a": b(&sx), "buflen": len}), || {
                let mut buf = vec![0xAAu8; len];
                match x.to_big_endian(&mut buf) {
                    Ok(()) => outs! {"out" => some(b(&buf))},
                    Err(_) => outs! {"out" => none()},
                }
            });
        }
        let idxs: Vec<usize> = if i < 2 || thorough { (0..=300).collect() } else { (0..20).map(|_| rng.gen_range(0..=300)).collect() };
        for bit in idxs {
            for to in [true, false] {
                out.call("f.set_bit", json!({"a": b(&sy), "i": bit, "to": to}), || {
                    let mut z = y;
                    z.set_bit(bit, to);
                    outs! {"out" => b(&z.to_slice())}
                });
            }
        }
    }
    // set_bit landing EXACTLY on the modulus or next to it: for every bit i of r, x = r - 2^i + d (d in {-1, 0, 1}) with bit i
    // set to 1 gives r + d; for every 0-bit j of r, x = (r + 2^j + d) mod r cleared at j ...  computed on field values: r = 0
    {
        let rb = r_bytes();
        let one = Fr::one();
        let mut pw = Fr::one();                   // 2^i mod r
        for i in 0..256usize {
            let bit_in_r = (rb[31 - i / 8] >> (i % 8)) & 1 == 1;
            for d in [Fr::zero(), one, -one] {
                let x = d - pw;                   // r - 2^i + d
                let sv = x.to_slice();
                let has = (sv[31 - i / 8] >> (i % 8)) & 1 == 1;
                if bit_in_r && !has {
                    out.call("f.set_bit", json!({"a": b(&sv), "i": i, "to": true}), || {
                        let mut z = x;
                        z.set_bit(i, true);
                        outs! {"out" => b(&z.to_slice())}
                    });
                }
            }
            pw = pw + pw;
        }
    }
    // set_bit on zero and on r-1
    for bit in [0usize, 1, 63, 64, 255] {
        for (v, name) in [(Fr::zero(), "zero"), (-Fr::one(), "rm1")] {
            let sv = v.to_slice();
            let _ = name;
            out.call("f.set_bit", json!({"a": b(&sv), "i": bit, "to": true}), || {
                let mut z = v;
                z.set_bit(bit, true);
                outs! {"out" => b(&z.to_slice())}
            });
        }
    }
}
