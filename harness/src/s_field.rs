//! Suites "fp" (C06: Fq/Fr arithmetic in every operator form) and "fq2" (C12: Fq2 arithmetic).
use crate::common::*;
use crate::outs;
use crate::Args;
use rand::Rng;
use serde_json::{json, Value};
use sm9_core::*;

pub const FORMS: [&str; 6] = ["vv", "rv", "vr", "rr", "av", "ar"];

macro_rules! binop_forms {
    ($name:ident, $t:ty) => {
        /// every operator form of +, -, * for one field type
        pub fn $name(op: &str, form: &str, a: $t, b: $t) -> $t {
            match (op, form) {
                ("add", "vv") => a + b,
                ("add", "rv") => &a + b,
                ("add", "vr") => a + &b,
                ("add", "rr") => &a + &b,
                ("add", "av") => { let mut x = a; x += b; x }
                ("add", "ar") => { let mut x = a; x += &b; x }
                ("sub", "vv") => a - b,
                ("sub", "rv") => &a - b,
                ("sub", "vr") => a - &b,
                ("sub", "rr") => &a - &b,
                ("sub", "av") => { let mut x = a; x -= b; x }
                ("sub", "ar") => { let mut x = a; x -= &b; x }
                ("mul", "vv") => a * b,
                ("mul", "rv") => &a * b,
                ("mul", "vr") => a * &b,
                ("mul", "rr") => &a * &b,
                ("mul", "av") => { let mut x = a; x *= b; x }
                ("mul", "ar") => { let mut x = a; x *= &b; x }
                _ => unreachable!(),
            }
        }
    };
}
binop_forms!(fq_binop, Fq);
binop_forms!(fr_binop, Fr);
binop_forms!(fq2_binop, Fq2);

pub fn fq_of(v: &[u8]) -> Fq {
    Fq::from_slice(v).expect("Fq::from_slice on 32 bytes")
}
pub fn fr_of(v: &[u8]) -> Fr {
    Fr::from_slice(v).expect("Fr::from_slice on 32 bytes")
}
pub fn fq2_of(re: &[u8], im: &[u8]) -> Fq2 {
    Fq2::new(fq_of(re), fq_of(im))
}

fn pick_operand<R: Rng>(rng: &mut R, pool: &Pool) -> Vec<u8> {
    // boundary pool 60 %, uniformly random 64-byte reduction 40 % (reduced by the library; logged as observed)
    if rng.gen_range(0..10) < 6 {
        pool.pick(rng)
    } else {
        rand_bytes(rng, 32)
    }
}

macro_rules! fp_suite {
    ($fname:ident, $t:ty, $of:ident, $binop:ident, $fstr:expr, $is_fq:expr) => {
        fn $fname(a: &Args, out: &mut Out) {
            let pool = load_pool(&a.pool, $fstr);
            let mut rng = rng_from(a.seed, concat!("fp-", $fstr));
            let mk = |v: &[u8]| -> $t { <$t>::from_slice(v).expect("from_slice 32") };
            let mut pair_idx = (a.seed as usize).wrapping_mul(7919) % pool.pairs.len();
            let mut k: u64 = 0;
            // sweep: every value of the TLC-generated boundary pool through the unary operations and a squaring
            // (a defect confined to ONE Montgomery-boundary element, e.g. the element whose representation is 1, is reached)
            if a.focus != "nosweep" {
                for v in pool.vals.iter() {
                    let fa = mk(v);
                    let sa = fa.to_slice();
                    out.call("f.inv", json!({"F": $fstr, "a": b(&sa)}), || outs! {"out" => opt_bytes(fa.inverse().map(|x| x.to_slice()))});
                    out.call("f.neg", json!({"F": $fstr, "form": "v", "a": b(&sa)}), || outs! {"out" => b(&(-fa).to_slice())});
                    out.call("f.mul", json!({"F": $fstr, "form": "rr", "a": b(&sa), "b": b(&sa)}), || outs! {"out" => b(&(&fa * &fa).to_slice())});
                    out.call("f.is_zero", json!({"F": $fstr, "a": b(&sa)}), || outs! {"out" => Value::Bool(fa.is_zero())});
                    // the dedicated squaring routine is reached through pow, not through a * a
                    let mut two = [0u8; 32];
                    two[31] = 2;
                    let f2 = mk(&two);
                    out.call("f.pow", json!({"F": $fstr, "a": b(&sa), "e": b(&two)}), || outs! {"out" => b(&fa.pow(f2).to_slice())});
                }
                // every designated Montgomery-boundary pair (sum exactly p / exactly 2^256 / equal / successor): add and sub, mul for a quarter
                for (i, (xa, xb)) in pool.pairs.iter().enumerate() {
                    let (fa, fb) = (mk(xa), mk(xb));
                    let (sa, sb) = (fa.to_slice(), fb.to_slice());
                    for opn in ["add", "sub", "mul"] {
                        if opn == "mul" && i % 4 != 0 { continue; }
                        let form = FORMS[(i + opn.len()) % 6];
                        out.call(&format!("f.{}", opn), json!({"F": $fstr, "form": form, "a": b(&sa), "b": b(&sb)}), || {
                            let r = $binop(opn, form, fa, fb);
                            outs! {"out" => b(&r.to_slice()), "outz" => Value::Bool(r.is_zero()), "outeq" => Value::Bool(Some(r) == <$t>::from_slice(&r.to_slice()))}
                        });
                    }
                }
                // V-boundary families (the Montgomery reduction ends on p-1, p, p+1, 2^256-1, 2^256, 2^256 + small ... before its
                // conditional subtraction): products in every form, and squares through pow (the dedicated squaring routine)
                for (i, (xa, xb)) in pool.vpairs.iter().chain(pool.qpairs.iter()).enumerate() {
                    let (fa, fb) = (mk(xa), mk(xb));
                    let (sa, sb) = (fa.to_slice(), fb.to_slice());
                    for form in [FORMS[i % 6], FORMS[(i + 3) % 6]] {
                        out.call("f.mul", json!({"F": $fstr, "form": form, "a": b(&sa), "b": b(&sb)}), || {
                            let r = $binop("mul", form, fa, fb);
                            outs! {"out" => b(&r.to_slice()), "outz" => Value::Bool(r.is_zero()), "outeq" => Value::Bool(Some(r) == <$t>::from_slice(&r.to_slice()))}
                        });
                    }
                }
                // near-equal pairs (Montgomery representations differing in one limb, or in two limbs by the same delta): ==
                for (xa, xb) in pool.eqpairs.iter() {
                    let (fa, fb) = (mk(xa), mk(xb));
                    let (sa, sb) = (fa.to_slice(), fb.to_slice());
                    out.call("f.eq", json!({"F": $fstr, "a": b(&sa), "b": b(&sb)}), || outs! {"out" => Value::Bool(fa == fb && fb == fa)});
                    out.call("f.sub", json!({"F": $fstr, "form": "vv", "a": b(&sa), "b": b(&sb)}), || {
                        let r = fa - fb;
                        outs! {"out" => b(&r.to_slice()), "outz" => Value::Bool(r.is_zero()), "outeq" => Value::Bool(Some(r) == <$t>::from_slice(&r.to_slice()))}
                    });
                }
                // boundary GRID: bases {0, 1, -1, 2, -2, 1/2} x exponents {0, 1, 2, 3, p-1, p-2, (p-1)/2, (p+1)/2, p-3}
                {
                    let (zero, one) = (<$t>::zero(), <$t>::one());
                    let two = one + one;
                    let half = two.inverse().unwrap();
                    let bases = [zero, one, -one, two, -two, half];
                    let exps = [zero, one, two, two + one, -one, -two, -half, half, -(two + one)];
                    for fa in bases {
                        for fe in exps {
                            let (sa, se) = (fa.to_slice(), fe.to_slice());
                            out.call("f.pow", json!({"F": $fstr, "a": b(&sa), "e": b(&se)}), || outs! {"out" => b(&fa.pow(fe).to_slice())});
                        }
                        let sa = fa.to_slice();
                        out.call("f.inv", json!({"F": $fstr, "a": b(&sa)}), || outs! {"out" => opt_bytes(fa.inverse().map(|x| x.to_slice()))});
                    }
                }
                // exponents (and bases) whose CANONICAL limbs come from {0, 1, 2^63, 2^64-1, p_i, p_i +- 1}: one in six, rotating with the seed
                {
                    let mut m = (-<$t>::one()).to_slice().to_vec();
                    for i in (0..32).rev() { m[i] = m[i].wrapping_add(1); if m[i] != 0 { break; } }
                    let base = mk(&pool.vals[7 % pool.vals.len()]);
                    let sb = base.to_slice();
                    for (i, v) in crate::reps::canon_patterns(&m).iter().enumerate() {
                        if (i as u64 + a.seed % 1000003) % (if a.tier == "thorough" { 1 } else { 6 }) != 0 { continue; }
                        let fe = mk(&v[..]);
                        let se = fe.to_slice();
                        out.call("f.pow", json!({"F": $fstr, "a": b(&sb), "e": b(&se)}), || outs! {"out" => b(&base.pow(fe).to_slice())});
                        out.call("f.neg", json!({"F": $fstr, "form": "v", "a": b(&se)}), || outs! {"out" => b(&(-fe).to_slice())});
                    }
                }
                // exponents whose Montgomery representation is a tiny integer / single limb
                for (i, v) in pool.lo.iter().enumerate() {
                    let fe = mk(v);
                    let fa = mk(&pool.vals[(i * 37) % pool.vals.len()]);
                    let (sa, se) = (fa.to_slice(), fe.to_slice());
                    out.call("f.pow", json!({"F": $fstr, "a": b(&sa), "e": b(&se)}), || outs! {"out" => b(&fa.pow(fe).to_slice())});
                }
                for xa in pool.vsq.iter() {
                    let fa = mk(xa);
                    let sa = fa.to_slice();
                    for e in [2u8, 3, 4] {
                        let mut ev = [0u8; 32];
                        ev[31] = e;
                        let fe = mk(&ev);
                        out.call("f.pow", json!({"F": $fstr, "a": b(&sa), "e": b(&ev)}), || outs! {"out" => b(&fa.pow(fe).to_slice())});
                    }
                    out.call("f.mul", json!({"F": $fstr, "form": "vv", "a": b(&sa), "b": b(&sa)}), || {
                        let r = fa * fa;
                        outs! {"out" => b(&r.to_slice()), "outz" => Value::Bool(r.is_zero()), "outeq" => Value::Bool(Some(r) == <$t>::from_slice(&r.to_slice()))}
                    });
                }
            }
            while !out.full() {
                k += 1;
                // operands: designated Montgomery-boundary pairs, pool x pool, pool x random, random x random
                let (xa, xb) = match k % 4 {
                    0 => {
                        pair_idx = (pair_idx + 1) % pool.pairs.len();
                        let p = &pool.pairs[pair_idx];
                        if rng.gen() { (p.0.clone(), p.1.clone()) } else { (p.1.clone(), p.0.clone()) }
                    }
                    1 => (pool.pick(&mut rng), pool.pick(&mut rng)),
                    2 => (pool.pick(&mut rng), rand_bytes(&mut rng, 32)),
                    _ => (pick_operand(&mut rng, &pool), pick_operand(&mut rng, &pool)),
                };
                let (fa, fb) = (mk(&xa), mk(&xb));
                let (sa, sb) = (fa.to_slice(), fb.to_slice());
                let opn = ["add", "sub", "mul"][rng.gen_range(0..3)];
                let form = FORMS[rng.gen_range(0..6)];
                out.call(&format!("f.{}", opn), json!({"F": $fstr, "form": form, "a": b(&sa), "b": b(&sb)}), || {
                    let r = $binop(opn, form, fa, fb);
                    // the result must also BEHAVE like the value it encodes: zero test, and == with the value rebuilt from its bytes
                    outs! {"out" => b(&r.to_slice()), "outz" => Value::Bool(r.is_zero()), "outeq" => Value::Bool(Some(r) == <$t>::from_slice(&r.to_slice()))}
                });
                match k % 8 {
                    0 => {
                        out.call("f.neg", json!({"F": $fstr, "form": "v", "a": b(&sa)}), || outs! {"out" => b(&(-fa).to_slice())});
                        out.call("f.neg", json!({"F": $fstr, "form": "r", "a": b(&sb)}), || outs! {"out" => b(&(-&fb).to_slice())});
                    }
                    1 => {
                        out.call("f.inv", json!({"F": $fstr, "a": b(&sa)}), || outs! {"out" => opt_bytes(fa.inverse().map(|x| x.to_slice()))});
                    }
                    2 => {
                        out.call("f.is_zero", json!({"F": $fstr, "a": b(&sa)}), || outs! {"out" => Value::Bool(fa.is_zero())});
                        out.call("f.eq", json!({"F": $fstr, "a": b(&sa), "b": b(&sb)}), || outs! {"out" => Value::Bool(fa == fb)});
                        let fc = mk(&sa);
                        out.call("f.eq", json!({"F": $fstr, "a": b(&sa), "b": b(&sa)}), || outs! {"out" => Value::Bool(fa == fc)});
                    }
                    3 => {
                        // exponent: small, boundary or random
                        let e = match rng.gen_range(0..6) {
                            0 => { let mut v = vec![0u8; 32]; v[31] = rng.gen_range(0..5); v }
                            1 => pool.pick(&mut rng),
                            2 | 3 => {
                                // 64-bit limb patterns of the CANONICAL exponent: zero limbs below non-zero ones, all-ones limbs, single bits
                                let mut v = vec![0u8; 32];
                                for l in 0..4 {
                                    let limb: u64 = match rng.gen_range(0..6) { 0 | 1 => 0, 2 => 1, 3 => u64::MAX, 4 => 1u64 << 63, _ => rng.gen() };
                                    v[8 * l..8 * l + 8].copy_from_slice(&limb.to_be_bytes());
                                }
                                v[0] &= 0x3f;
                                v
                            }
                            _ => rand_bytes(&mut rng, 32),
                        };
                        let fe = mk(&e);
                        let se = fe.to_slice();
                        out.call("f.pow", json!({"F": $fstr, "a": b(&sa), "e": b(&se)}), || outs! {"out" => b(&fa.pow(fe).to_slice())});
                    }
                    _ => {}
                }
                fp_extra::<$t>(out, $is_fq, &sa);
            }
        }
    };
}

fn fp_extra<T>(out: &mut Out, is_fq: bool, sa: &[u8]) {
    if is_fq && out.seq % 5 == 0 {
        let fa = fq_of(sa);
        out.call("f.is_even", json!({"F": "Fq", "a": b(sa)}), || outs! {"out" => Value::Bool(fa.is_even())});
    }
    let _ = std::marker::PhantomData::<T>;
}

fp_suite!(run_fq, Fq, fq_of, fq_binop, "Fq", true);
fp_suite!(run_fr, Fr, fr_of, fr_binop, "Fr", false);

pub fn run_fp(a: &Args, out: &mut Out) {
    // first half Fq, second half Fr
    let total = out.limit;
    out.limit = total / 2;
    run_fq(a, out);
    out.limit = total;
    run_fr(a, out);
    // fixed corner cases, always present
    for f in ["Fq", "Fr"] {
        let z = [0u8; 32];
        if f == "Fq" {
            out.call("f.inv", json!({"F": f, "a": b(&z)}), || outs! {"out" => opt_bytes(Fq::zero().inverse().map(|x| x.to_slice()))});
            out.call("f.neg", json!({"F": f, "form": "v", "a": b(&z)}), || outs! {"out" => b(&(-Fq::zero()).to_slice())});
            out.call("f.is_zero", json!({"F": f, "a": b(&z)}), || outs! {"out" => Value::Bool(Fq::zero().is_zero())});
        } else {
            out.call("f.inv", json!({"F": f, "a": b(&z)}), || outs! {"out" => opt_bytes(Fr::zero().inverse().map(|x| x.to_slice()))});
            out.call("f.neg", json!({"F": f, "form": "v", "a": b(&z)}), || outs! {"out" => b(&(-Fr::zero()).to_slice())});
            out.call("f.is_zero", json!({"F": f, "a": b(&z)}), || outs! {"out" => Value::Bool(Fr::zero().is_zero())});
        }
    }
}

/// Fq2 as 64 bytes, imaginary part first (the library's own to_slice order is what is logged)
pub fn run_fq2(a: &Args, out: &mut Out) {
    let pool = load_pool(&a.pool, "Fq");
    let mut rng = rng_from(a.seed, "fq2");
    let zero = vec![0u8; 32];
    let mut comp = |rng: &mut rand::rngs::StdRng| -> Vec<u8> {
        match rng.gen_range(0..10) {
            0 => zero.clone(),
            1..=5 => pool.pick(rng),
            _ => rand_bytes(rng, 32),
        }
    };
    // sweep: Fq2 products whose interleaved Montgomery quotient (imaginary coefficient) has prescribed digits (TLC-generated)
    if a.focus != "nosweep" {
        for (i, qd) in pool.sopq.iter().enumerate() {
            let (x, y) = (fq2_of(&qd[0], &qd[1]), fq2_of(&qd[2], &qd[3]));
            let (sx, sy) = (x.to_slice(), y.to_slice());
            let form = FORMS[i % 6];
            out.call("f2.mul", json!({"form": form, "a": b(&sx), "b": b(&sy)}), || {
                let r = fq2_binop("mul", form, x, y);
                outs! {"out" => b(&r.to_slice()), "outz" => Value::Bool(r.is_zero()), "outeq" => Value::Bool(Some(r) == Fq2::from_slice(&r.to_slice()))}
            });
        }
    }
    // sweep: operands with a component whose Montgomery representation is a tiny integer / a single limb, the other component zero
    if a.focus != "nosweep" {
        let zero32 = vec![0u8; 32];
        for (i, v) in pool.lo.iter().enumerate() {
            let x = fq2_of(&pool.vals[(i * 53 + 7) % pool.vals.len()], &pool.vals[(i * 31 + 3) % pool.vals.len()]);
            for y in [fq2_of(v, &zero32), fq2_of(&zero32, v), fq2_of(v, v)] {
                let (sx, sy) = (x.to_slice(), y.to_slice());
                for (l, r, sl, sr) in [(x, y, sx, sy), (y, x, sy, sx)] {
                    out.call("f2.mul", json!({"form": "vv", "a": b(&sl), "b": b(&sr)}), || {
                        let p = l * r;
                        outs! {"out" => b(&p.to_slice()), "outz" => Value::Bool(p.is_zero()), "outeq" => Value::Bool(Some(p) == Fq2::from_slice(&p.to_slice()))}
                    });
                }
            }
        }
    }
    let mut k = 0u64;
    while !out.full() {
        k += 1;
        let (mut x, mut y) = (fq2_of(&comp(&mut rng), &comp(&mut rng)), fq2_of(&comp(&mut rng), &comp(&mut rng)));
        if rng.gen_range(0..8) == 0 {
            // components in a small linear RELATION (a factor of the complex-squaring / Karatsuba formulas vanishes):
            // a0 = 2 a1 (a0 - 2 a1 = 0), a0 = -a1 (a0 + a1 = 0), a0 = a1, a0 = -2 a1, a1 = 2 a0, a1 = -2 a0
            let rel = |rng: &mut rand::rngs::StdRng, a: Fq| -> Fq2 {
                let two = a + a;
                match rng.gen_range(0..6) { 0 => Fq2::new(two, a), 1 => Fq2::new(-a, a), 2 => Fq2::new(a, a), 3 => Fq2::new(-two, a), 4 => Fq2::new(a, two), _ => Fq2::new(a, -two) }
            };
            x = rel(&mut rng, x.imaginary());
            if rng.gen() { y = rel(&mut rng, y.real()); }
        }
        if k % 9 >= 4 && k % 3 == 0 && !pool.hi.is_empty() {
            // carry classes of the interleaved sum of products: every Montgomery residue entering one coefficient just below q
            // (imaginary part: a0, a1, b0, b1 high; real part: a0, b0, b1 high and a1 small so that -2*a1 is high)
            let hi = |rng: &mut rand::rngs::StdRng| pool.hi[rng.gen_range(0..pool.hi.len())].clone();
            let lo = |rng: &mut rand::rngs::StdRng| pool.lo[rng.gen_range(0..pool.lo.len())].clone();
            let a1 = if rng.gen() { hi(&mut rng) } else { lo(&mut rng) };
            x = fq2_of(&hi(&mut rng), &a1);
            y = fq2_of(&hi(&mut rng), &hi(&mut rng));
        }
        // products with a vanishing coefficient although every contribution is non-zero (the interleaved sum of products
        // then ends exactly on a multiple of q): z * conj(z), a*d + b*c = 0, a*c - 2*b*d = 0
        let y = match k % 9 {
            0 => Fq2::new(x.real(), -x.imaginary()),
            1 => Fq2::new(x.real(), -x.imaginary()) * Fq2::new(y.real(), Fq::zero()),
            2 if !x.real().is_zero() => {
                // imaginary part of x*y vanishes: d = -b*c/a
                let c = y.real();
                Fq2::new(c, -(x.imaginary() * c) * x.real().inverse().unwrap())
            }
            3 if !x.imaginary().is_zero() => {
                // real part of x*y vanishes: d = a*c/(2b)
                let c = y.real();
                Fq2::new(c, x.real() * c * (x.imaginary() + x.imaginary()).inverse().unwrap())
            }
            _ => y,
        };
        let y = if rng.gen_range(0..16) == 0 { x } else { y };          // equal operands
        let (sx, sy) = (x.to_slice(), y.to_slice());
        let opn = if k % 9 < 4 || k % 3 == 0 { "mul" } else { ["add", "sub", "mul", "mul"][rng.gen_range(0..4)] };
        let form = FORMS[rng.gen_range(0..6)];
        out.call(&format!("f2.{}", opn), json!({"form": form, "a": b(&sx), "b": b(&sy)}), || {
            let r = fq2_binop(opn, form, x, y);
            outs! {"out" => b(&r.to_slice()), "outz" => Value::Bool(r.is_zero()), "outeq" => Value::Bool(Some(r) == Fq2::from_slice(&r.to_slice()))}
        });
        match k % 8 {
            0 => {
                out.call("f2.neg", json!({"form": "v", "a": b(&sx)}), || outs! {"out" => b(&(-x).to_slice())});
                out.call("f2.neg", json!({"form": "r", "a": b(&sy)}), || outs! {"out" => b(&(-&y).to_slice())});
            }
            1 => {
                out.call("f2.parts", json!({"a": b(&sx)}), || {
                    outs! {"re" => b(&x.real().to_slice()), "im" => b(&x.imaginary().to_slice()),
                           "even" => Value::Bool(x.is_even()), "zero" => Value::Bool(x.is_zero())}
                });
            }
            2 => {
                let (re, im) = (comp(&mut rng), comp(&mut rng));
                let (fre, fim) = (fq_of(&re), fq_of(&im));
                out.call("f2.new", json!({"re": b(&fre.to_slice()), "im": b(&fim.to_slice())}), || {
                    outs! {"out" => b(&Fq2::new(fre, fim).to_slice())}
                });
            }
            3 => {
                out.call("f2.from_slice", json!({"in": b(&sx)}), || {
                    outs! {"out" => opt_bytes(Fq2::from_slice(&sx).map(|v| v.to_slice()))}
                });
                out.call("f2.eq", json!({"a": b(&sx), "b": b(&sy)}), || outs! {"out" => Value::Bool(x == y)});
                let x2 = Fq2::from_slice(&sx);
                out.call("f2.eq", json!({"a": b(&sx), "b": b(&sx)}), || outs! {"out" => Value::Bool(Some(x) == x2)});
            }
            4 => {
                // the squaring used inside point arithmetic (plain Fq multiplications a0*a1, not the interleaved sum of products):
                // half of the time the components are a TLC-generated quotient-pattern / V-boundary pair
                let (x, y) = if rng.gen::<bool>() && !pool.qpairs.is_empty() {
                    let pa = &pool.qpairs[rng.gen_range(0..pool.qpairs.len())];
                    let pb = if rng.gen() { &pool.vpairs[rng.gen_range(0..pool.vpairs.len())] } else { &pool.qpairs[rng.gen_range(0..pool.qpairs.len())] };
                    (fq2_of(&pa.0, &pa.1), fq2_of(&pb.0, &pb.1))
                } else { (x, y) };
                let (sx, sy) = (x.to_slice(), y.to_slice());
                // the squaring used inside point arithmetic, observed through G2 doubling of (x, y, 1)
                out.call("f2.g2dbl", json!({"x": b(&sx), "y": b(&sy)}), || {
                    let t = G2::new(x, y, Fq2::one());
                    let d = t + t;
                    outs! {"ox" => b(&d.x().to_slice()), "oy" => b(&d.y().to_slice()), "oz" => b(&d.z().to_slice())}
                });
            }
            5 => {
                // ring laws as relations between recorded products
                let z = fq2_of(&comp(&mut rng), &comp(&mut rng));
                let sz = z.to_slice();
                out.call("f2.laws", json!({"a": b(&sx), "b": b(&sy), "c": b(&sz)}), || {
                    outs! {"ab" => b(&(x * y).to_slice()), "ba" => b(&(y * x).to_slice()),
                           "ab_c" => b(&((x * y) * z).to_slice()), "a_bc" => b(&(x * (y * z)).to_slice()),
                           "a_bpc" => b(&(x * (y + z)).to_slice()), "abpac" => b(&(x * y + x * z).to_slice()),
                           "a1" => b(&(x * Fq2::one()).to_slice())}
                });
            }
            _ => {}
        }
    }
    // fixed: zero / one
    out.call("f2.parts", json!({"a": b(&Fq2::zero().to_slice())}), || {
        let x = Fq2::zero();
        outs! {"re" => b(&x.real().to_slice()), "im" => b(&x.imaginary().to_slice()), "even" => Value::Bool(x.is_even()), "zero" => Value::Bool(x.is_zero())}
    });
}
