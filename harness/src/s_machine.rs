//! Stateful suites: random programs over a register file, one event per public call, naming destination and source
//! registers.  The specification (spec/TraceMachine.tla) keeps its own abstract register file and predicts every
//! observable from it.
//!   gmachine (C16, C03, C01)  G1 / G2 / Fr / Gt / G2Prepared registers; histories of group operations and pairings
//!   fmachine (C07)            Fr / Fq / Fq2 registers; every public producer of a field element, composed in any order
use crate::common::*;
use crate::grp::*;
use crate::outs;
use crate::reps::*;
use crate::s_pair::pair_by;
use crate::Args;
use rand::rngs::StdRng;
use rand::{Rng, RngCore};
use serde_json::{json, Map, Value};
use sm9_core::*;

// ------------------------------------------------------------------------------------------------ gmachine
const NFR: usize = 3;
const NG: usize = 4;
const NGT: usize = 3;
const NPREP: usize = 2;
const FR0: usize = 1;
const G10: usize = FR0 + NFR;
const G20: usize = G10 + NG;
const GT0: usize = G20 + NG;
const PR0: usize = GT0 + NGT;
const NREG: usize = PR0 + NPREP - 1;

struct GM {
    fr: [Option<Fr>; NFR],
    g1: [Option<G1>; NG],
    k1: [Fr; NG],
    g2: [Option<G2>; NG],
    k2: [Fr; NG],
    gt: [Option<Gt>; NGT],
    prep: [Option<G2Prepared>; NPREP],
}

fn fr_obs(regs: &[Option<Fr>], base: usize, d: usize) -> Map<String, Value> {
    let me = regs[d].unwrap();
    let (mut eqj, mut eqv) = (vec![], vec![]);
    for (j, r) in regs.iter().enumerate() {
        if let Some(x) = r {
            eqj.push(Value::from(base + j));
            eqv.push(Value::Bool(*x == me));
        }
    }
    outs! {"res" => Value::from("some"), "out" => b(&me.to_slice()), "isz" => Value::Bool(me.is_zero()), "eqj" => Value::Array(eqj), "eqv" => Value::Array(eqv)}
}

fn g_obs<G: Grp>(regs: &[Option<G>], base: usize, d: usize, fresh: Option<Fr>) -> Map<String, Value> {
    let me = regs[d].unwrap();
    let (mut eqj, mut eqv) = (vec![], vec![]);
    for (j, r) in regs.iter().enumerate() {
        if let Some(x) = r {
            eqj.push(Value::from(base + j));
            eqv.push(Value::Bool(*x == me));
        }
    }
    let enc = if me.is_zero_() { none() } else { some(b(&me.enc("raw"))) };
    let fr = match fresh {
        Some(k) => {
            let f = G::gen() * k;
            let enceq = if me.is_zero_() || f.is_zero_() { me.is_zero_() && f.is_zero_() } else { me.enc("raw") == f.enc("raw") && me.enc("cmp") == f.enc("cmp") };
            json!({"t": "some", "v": {"k": b(&k.to_slice()), "eq": me == f && f == me, "enceq": enceq}})
        }
        None => none(),
    };
    outs! {"jac" => me.jac(), "isz" => Value::Bool(me.is_zero_()), "enc" => enc, "eqj" => Value::Array(eqj), "eqv" => Value::Array(eqv), "fresh" => fr}
}

fn gt_obs(regs: &[Option<Gt>], d: usize, anchor: bool) -> Map<String, Value> {
    let me = regs[d].unwrap();
    let (mut eqj, mut eqv) = (vec![], vec![]);
    for (j, r) in regs.iter().enumerate() {
        if let Some(x) = r {
            eqj.push(Value::from(GT0 + j));
            eqv.push(Value::Bool(*x == me));
        }
    }
    outs! {"out" => b(&me.to_slice()), "eqj" => Value::Array(eqj), "eqv" => Value::Array(eqv), "anchor" => Value::Bool(anchor)}
}

fn live<T>(regs: &[Option<T>], rng: &mut StdRng) -> Option<usize> {
    let idx: Vec<usize> = regs.iter().enumerate().filter(|(_, r)| r.is_some()).map(|(i, _)| i).collect();
    if idx.is_empty() { None } else { Some(idx[rng.gen_range(0..idx.len())]) }
}

/// one group-machine step on group G (register block `base`)
#[allow(clippy::too_many_arguments)]
fn g_step<G: Grp>(rng: &mut StdRng, out: &mut Out, regs: &mut [Option<G>; NG], ks: &mut [Fr; NG], frs: &[Option<Fr>; NFR], base: usize, rescale: bool, step: u64) {
    let g = G::NAME;
    let d = rng.gen_range(0..NG);
    let fresh = |k: Fr| if step % 6 == 0 { Some(k) } else { None };
    let (a, bb) = (live(regs, rng), live(regs, rng));
    let choice = rng.gen_range(0..if rescale { 21 } else { 18 });
    match (choice, a, bb) {
        (0, _, _) | (_, None, _) | (_, _, None) => {
            let zero = rng.gen_range(0..4) == 0;
            out.call(if zero { "m.gzero" } else { "m.ggen" }, json!({"G": g, "d": base + d}), || {
                regs[d] = Some(if zero { G::zero() } else { G::gen() });
                ks[d] = if zero { Fr::zero() } else { Fr::one() };
                g_obs(&regs[..], base, d, fresh(ks[d]))
            });
        }
        (1..=5, Some(a), Some(bb)) => {
            let sub = choice % 2 == 0;
            out.call(if sub { "m.gsub" } else { "m.gadd" }, json!({"G": g, "d": base + d, "a": base + a, "b": base + bb}), || {
                let (x, y) = (regs[a].unwrap(), regs[bb].unwrap());
                regs[d] = Some(if sub { x - y } else { x + y });
                ks[d] = if sub { ks[a] - ks[bb] } else { ks[a] + ks[bb] };
                g_obs(&regs[..], base, d, fresh(ks[d]))
            });
            if !sub && a != bb && d != a && d != bb && choice == 1 {
                // the commuted sum into another register: the same element, usually another representative (z vs -z);
                // the == row then relates the two
                let d2 = (0..NG).find(|i| *i != d && *i != a && *i != bb);
                if let Some(d2) = d2 {
                    out.call("m.gadd", json!({"G": g, "d": base + d2, "a": base + bb, "b": base + a}), || {
                        let (x, y) = (regs[bb].unwrap(), regs[a].unwrap());
                        regs[d2] = Some(x + y);
                        ks[d2] = ks[a] + ks[bb];
                        g_obs(&regs[..], base, d2, fresh(ks[d2]))
                    });
                }
            }
        }
        (6, Some(a), _) => {
            out.call("m.gneg", json!({"G": g, "d": base + d, "a": base + a}), || {
                regs[d] = Some(-regs[a].unwrap());
                ks[d] = -ks[a];
                g_obs(&regs[..], base, d, fresh(ks[d]))
            });
        }
        (7..=10, Some(a), _) => {
            if let Some(s) = live(frs, rng) {
                let rev = rng.gen();
                out.call("m.gmul", json!({"G": g, "d": base + d, "a": base + a, "s": FR0 + s, "rev": rev}), || {
                    let (x, k) = (regs[a].unwrap(), frs[s].unwrap());
                    regs[d] = Some(if rev { G::rmul(k, x) } else { x * k });
                    ks[d] = ks[a] * k;
                    g_obs(&regs[..], base, d, fresh(ks[d]))
                });
            }
        }
        (11 | 12, Some(a), _) => {
            out.call("m.gnorm", json!({"G": g, "d": base + d, "a": base + a}), || {
                let mut x = regs[a].unwrap();
                x.normalize_();
                regs[d] = Some(x);
                ks[d] = ks[a];
                g_obs(&regs[..], base, d, fresh(ks[d]))
            });
        }
        (13 | 14, Some(a), _) => {
            out.call("m.gaffrt", json!({"G": g, "d": base + d, "a": base + a}), || {
                let x = regs[a].unwrap();
                let rt = x.affine().and_then(|(ax, ay)| G::affine_new(&ax, &ay));
                regs[d] = Some(rt.unwrap_or(x));
                ks[d] = ks[a];
                let mut o = g_obs(&regs[..], base, d, fresh(ks[d]));
                o.insert("rtok".into(), Value::Bool(rt.is_some()));
                o
            });
        }
        (15 | 16, Some(a), _) => {
            let fmt = ["raw", "unc", "cmp"][rng.gen_range(0..3)];
            out.call("m.gcodec", json!({"G": g, "d": base + d, "a": base + a, "fmt": fmt}), || {
                let x = regs[a].unwrap();
                let rt = if x.is_zero_() { None } else { G::dec(&x.enc(fmt), fmt) };
                regs[d] = Some(rt.unwrap_or(x));
                ks[d] = ks[a];
                let mut o = g_obs(&regs[..], base, d, fresh(ks[d]));
                o.insert("rtok".into(), Value::Bool(rt.is_some()));
                o
            });
        }
        (17, Some(a), _) => {
            out.call("m.gcopy", json!({"G": g, "d": base + d, "a": base + a}), || {
                regs[d] = regs[a];
                ks[d] = ks[a];
                g_obs(&regs[..], base, d, fresh(ks[d]))
            });
        }
        (_, Some(a), _) => {
            // explicit rescaling through the public constructor (not part of C16's alphabet; used by the C03 programs)
            let x = regs[a].unwrap();
            let tag = if x.is_zero_() { "S" } else { "S" };
            let y = if rng.gen::<bool>() { x.rescale_pattern(rng).unwrap_or_else(|| G::rep(rng, x, tag)) } else { G::rep(rng, x, tag) };
            out.call("m.grescale", json!({"G": g, "d": base + d, "a": base + a}), || {
                regs[d] = Some(y);
                ks[d] = ks[a];
                g_obs(&regs[..], base, d, fresh(ks[d]))
            });
        }
    }
}

fn small_scalar(rng: &mut StdRng, pool: &Pool, small: bool) -> Vec<u8> {
    if small {
        // the small alphabet of C16: {0, 1, 2, r-1}
        let two = Fr::one() + Fr::one();
        return [Fr::zero(), Fr::one(), two, -Fr::one()][rng.gen_range(0..4)].to_slice().to_vec();
    }
    pick_scalar(rng, pool).to_slice().to_vec()
}

pub fn run_gmachine(a: &Args, out: &mut Out) {
    let pool = load_pool(&a.pool, "Fr");
    let mut rng = rng_from(a.seed.wrapping_mul(1000003).wrapping_add(a.part), "gmachine");
    let focus = a.focus.as_str(); // "group" (C16), "prep" (C03 histories), "pair" (C01/C16 with pairings)
    let _ = PATTERN_ZS.get_or_init(|| inv_pattern_zs(&load_pool(&a.pool, "Fq"), a.seed, 1200));
    let small = a.part % 3 == 0;
    let mut m = GM { fr: [None; NFR], g1: [None; NG], k1: [Fr::zero(); NG], g2: [None; NG], k2: [Fr::zero(); NG], gt: [None; NGT], prep: [None, None] };
    out.call("m.init", json!({"n": NREG}), || outs! {});
    let mut step = 0u64;
    while !out.full() {
        step += 1;
        let c = rng.gen_range(0..100);
        let (wfr, wg1, wg2) = match focus {
            "prep" => (10, 30, 50),
            "pair" => (10, 40, 65),
            _ => (12, 60, 96),
        };
        if c < wfr || m.fr.iter().all(|x| x.is_none()) {
            // scalar registers: constants and field arithmetic on them
            let d = rng.gen_range(0..NFR);
            let (x, y) = (live(&m.fr, &mut rng), live(&m.fr, &mut rng));
            match (rng.gen_range(0..6), x, y) {
                (0..=2, _, _) | (_, None, _) | (_, _, None) => {
                    let v = small_scalar(&mut rng, &pool, small);
                    out.call("mf", json!({"T": "Fr", "d": FR0 + d, "fn": "from_slice", "in": b(&v)}), || {
                        m.fr[d] = Fr::from_slice(&v);
                        fr_obs(&m.fr, FR0, d)
                    });
                }
                (3, Some(x), Some(y)) => {
                    let f = ["add", "sub", "mul"][rng.gen_range(0..3)];
                    out.call("mf", json!({"T": "Fr", "d": FR0 + d, "fn": f, "a": FR0 + x, "b": FR0 + y}), || {
                        let (p, q) = (m.fr[x].unwrap(), m.fr[y].unwrap());
                        m.fr[d] = Some(match f { "add" => p + q, "sub" => p - q, _ => p * q });
                        fr_obs(&m.fr, FR0, d)
                    });
                }
                (4, Some(x), _) => {
                    out.call("mf", json!({"T": "Fr", "d": FR0 + d, "fn": "neg", "a": FR0 + x}), || {
                        m.fr[d] = Some(-m.fr[x].unwrap());
                        fr_obs(&m.fr, FR0, d)
                    });
                }
                (_, Some(x), _) => {
                    let src = m.fr[x].unwrap();
                    out.call("mf", json!({"T": "Fr", "d": FR0 + d, "fn": "inv", "a": FR0 + x}), || match src.inverse() {
                        Some(v) => {
                            m.fr[d] = Some(v);
                            fr_obs(&m.fr, FR0, d)
                        }
                        None => outs! {"res" => Value::from("none")},
                    });
                }
            }
        } else if c < wg1 {
            g_step::<G1>(&mut rng, out, &mut m.g1, &mut m.k1, &m.fr, G10, focus == "prep" || a.part % 2 == 1, step);
        } else if c < wg2 {
            g_step::<G2>(&mut rng, out, &mut m.g2, &mut m.k2, &m.fr, G20, focus == "prep" || a.part % 2 == 1, step);
        } else {
            // pairings, prepared values, Gt arithmetic
            let d = rng.gen_range(0..NGT);
            let (p, q) = (live(&m.g1, &mut rng), live(&m.g2, &mut rng));
            let sub = rng.gen_range(0..10);
            match (sub, p, q) {
                (0..=2, Some(p), Some(q)) => {
                    let v = crate::s_pair::ENTRY[rng.gen_range(0..3)];
                    let full = focus == "pair" && step % 40 == 0;
                    out.call("m.pair", json!({"v": v, "d": GT0 + d, "p": G10 + p, "q": G20 + q, "full": full}), || {
                        m.gt[d] = Some(pair_by(v, m.g1[p].unwrap(), m.g2[q].unwrap()));
                        gt_obs(&m.gt, d, false)
                    });
                }
                (3, _, Some(q)) => {
                    let h = rng.gen_range(0..NPREP);
                    out.call("m.prep", json!({"d": PR0 + h, "q": G20 + q}), || {
                        m.prep[h] = Some(G2Prepared::from(m.g2[q].unwrap()));
                        outs! {}
                    });
                }
                (4..=6, Some(p), _) => {
                    let hs: Vec<usize> = (0..NPREP).filter(|i| m.prep[*i].is_some()).collect();
                    if !hs.is_empty() {
                        let h = hs[rng.gen_range(0..hs.len())];
                        out.call("m.preppair", json!({"d": GT0 + d, "h": PR0 + h, "p": G10 + p}), || {
                            m.gt[d] = Some(m.prep[h].as_ref().unwrap().pairing(&m.g1[p].unwrap()));
                            gt_obs(&m.gt, d, false)
                        });
                        if rng.gen_range(0..4) == 0 {
                            let h2 = (h + 1) % NPREP;
                            out.call("m.prepclone", json!({"d": PR0 + h2, "h": PR0 + h}), || {
                                m.prep[h2] = m.prep[h].clone();
                                outs! {}
                            });
                        }
                    }
                }
                _ => {
                    let (x, y) = (live(&m.gt, &mut rng), live(&m.gt, &mut rng));
                    match (rng.gen_range(0..4), x, y) {
                        (_, None, _) | (_, _, None) => {
                            out.call("m.gtone", json!({"d": GT0 + d}), || {
                                m.gt[d] = Some(Gt::one());
                                gt_obs(&m.gt, d, true)
                            });
                        }
                        (0 | 1, Some(x), Some(y)) => {
                            out.call("m.gtmul", json!({"d": GT0 + d, "a": GT0 + x, "b": GT0 + y}), || {
                                m.gt[d] = Some(m.gt[x].unwrap() * m.gt[y].unwrap());
                                gt_obs(&m.gt, d, step % 5 == 0)
                            });
                        }
                        (2, Some(x), _) => {
                            if let Some(s) = live(&m.fr, &mut rng) {
                                out.call("m.gtpow", json!({"d": GT0 + d, "a": GT0 + x, "s": FR0 + s}), || {
                                    m.gt[d] = Some(m.gt[x].unwrap().pow(m.fr[s].unwrap()));
                                    gt_obs(&m.gt, d, step % 5 == 0)
                                });
                            }
                        }
                        (_, Some(x), _) => {
                            out.call("m.gtinv", json!({"d": GT0 + d, "a": GT0 + x}), || {
                                m.gt[d] = m.gt[x].unwrap().inverse();
                                gt_obs(&m.gt, d, false)
                            });
                        }
                    }
                }
            }
        }
    }
}

// ------------------------------------------------------------------------------------------------ fmachine (C07)
/// RNG streams for Fr::random: constant bytes, all ones, a counter, or a PRNG
struct Stream {
    kind: u8,
    c: u8,
    ctr: u64,
    prng: StdRng,
}
impl RngCore for Stream {
    fn next_u32(&mut self) -> u32 {
        self.next_u64() as u32
    }
    fn next_u64(&mut self) -> u64 {
        match self.kind {
            0 => u64::from_le_bytes([self.c; 8]),
            1 => u64::MAX,
            2 => {
                self.ctr = self.ctr.wrapping_add(1);
                self.ctr
            }
            _ => self.prng.next_u64(),
        }
    }
    fn fill_bytes(&mut self, dest: &mut [u8]) {
        for ch in dest.chunks_mut(8) {
            let v = self.next_u64().to_le_bytes();
            ch.copy_from_slice(&v[..ch.len()]);
        }
    }
    fn try_fill_bytes(&mut self, dest: &mut [u8]) -> Result<(), rand::Error> {
        self.fill_bytes(dest);
        Ok(())
    }
}

const NF: usize = 4;
const FRB: usize = 1;
const FQB: usize = FRB + NF;
const F2B: usize = FQB + NF;
const NFREG: usize = F2B + 3 - 1;

macro_rules! f_obs {
    ($regs:expr, $base:expr, $d:expr) => {{
        let me = $regs[$d].unwrap();
        let (mut eqj, mut eqv) = (vec![], vec![]);
        for (j, r) in $regs.iter().enumerate() {
            if let Some(x) = r {
                eqj.push(Value::from($base + j));
                eqv.push(Value::Bool(*x == me && me == *x));
            }
        }
        outs! {"res" => Value::from("some"), "out" => b(&me.to_slice()), "isz" => Value::Bool(me.is_zero()), "eqj" => Value::Array(eqj), "eqv" => Value::Array(eqv)}
    }};
}

fn rand_input(rng: &mut StdRng, pool: &Pool, pb: &[u8]) -> Vec<u8> {
    let len = match rng.gen_range(0..6) {
        0 => rng.gen_range(0..=70),
        1 => 32,
        2 => 64,
        _ => rng.gen_range(1..=64),
    };
    match rng.gen_range(0..6) {
        0 => vec![0xffu8; len],
        1 => vec![0u8; len],
        2 if len >= 32 => {
            // p, p+-1 right-aligned
            let mut v = vec![0u8; len];
            v[len - 32..].copy_from_slice(pb);
            let delta = rng.gen_range(0..3);
            for i in (0..len).rev() {
                if delta == 1 { break; }
                if delta == 0 { v[i] = v[i].wrapping_sub(1); if v[i] != 0xff { break; } } else { v[i] = v[i].wrapping_add(1); if v[i] != 0 { break; } }
            }
            v
        }
        3 if len == 32 => pool.pick(rng),
        _ => rand_bytes(rng, len),
    }
}

pub fn run_fmachine(a: &Args, out: &mut Out) {
    let poolr = load_pool(&a.pool, "Fr");
    let poolq = load_pool(&a.pool, "Fq");
    let mut rng = rng_from(a.seed.wrapping_mul(1000003).wrapping_add(a.part), "fmachine");
    let mut fr: [Option<Fr>; NF] = [None; NF];
    let mut fq: [Option<Fq>; NF] = [None; NF];
    let mut f2: [Option<Fq2>; 3] = [None; 3];
    let rb = { let mut v = (-Fr::one()).to_slice().to_vec(); for i in (0..32).rev() { v[i] = v[i].wrapping_add(1); if v[i] != 0 { break; } } v };
    let qb = { let mut v = (-Fq::one()).to_slice().to_vec(); for i in (0..32).rev() { v[i] = v[i].wrapping_add(1); if v[i] != 0 { break; } } v };
    out.call("m.init", json!({"n": NFREG}), || outs! {});
    let mut tick = 0u64;
    while !out.full() {
        tick += 1;
        if tick % 8 == 0 {
            // inject a designated Montgomery-boundary pair (TLC-generated) into two registers and combine them; the
            // results stay in the register file and are used by the random operations that follow
            let fr_turn = tick % 16 == 0;
            if tick % 24 == 0 {
                // a TLC-generated square-family value (V-boundary / zero quotient digit) into a register, then squared through pow
                let fq_turn = tick % 48 == 0 && !poolq.vsq.is_empty();
                let two = [2u8];
                if fq_turn {
                    let v = poolq.vsq[rng.gen_range(0..poolq.vsq.len())].clone();
                    let (i, j, d) = (2usize, 3usize, rng.gen_range(0..NF));
                    out.call("mf", json!({"T": "Fq", "d": FQB + i, "fn": "from_slice", "in": b(&v), "via": "from_slice"}), || { fq[i] = Fq::from_slice(&v); f_obs!(fq, FQB, i) });
                    out.call("mf", json!({"T": "Fq", "d": FQB + j, "fn": "from_slice", "in": b(&two), "via": "from_slice"}), || { fq[j] = Fq::from_slice(&two); f_obs!(fq, FQB, j) });
                    out.call("mf", json!({"T": "Fq", "d": FQB + d, "fn": "pow", "a": FQB + i, "b": FQB + j}), || { fq[d] = Some(fq[i].unwrap().pow(fq[j].unwrap())); f_obs!(fq, FQB, d) });
                } else if !poolr.vsq.is_empty() {
                    let v = poolr.vsq[rng.gen_range(0..poolr.vsq.len())].clone();
                    let (i, j, d) = (2usize, 3usize, rng.gen_range(0..NF));
                    out.call("mf", json!({"T": "Fr", "d": FRB + i, "fn": "from_slice", "in": b(&v), "via": "from_slice"}), || { fr[i] = Fr::from_slice(&v); f_obs!(fr, FRB, i) });
                    out.call("mf", json!({"T": "Fr", "d": FRB + j, "fn": "from_slice", "in": b(&two), "via": "from_slice"}), || { fr[j] = Fr::from_slice(&two); f_obs!(fr, FRB, j) });
                    out.call("mf", json!({"T": "Fr", "d": FRB + d, "fn": "pow", "a": FRB + i, "b": FRB + j}), || { fr[d] = Some(fr[i].unwrap().pow(fr[j].unwrap())); f_obs!(fr, FRB, d) });
                }
                continue;
            }
            if fr_turn {
                let (xa, xb) = poolr.pairs[rng.gen_range(0..poolr.pairs.len())].clone();
                let (i, j, d) = (0usize, 1usize, rng.gen_range(0..NF));
                out.call("mf", json!({"T": "Fr", "d": FRB + i, "fn": "from_slice", "in": b(&xa), "via": "from_slice"}), || { fr[i] = Fr::from_slice(&xa); f_obs!(fr, FRB, i) });
                out.call("mf", json!({"T": "Fr", "d": FRB + j, "fn": "from_slice", "in": b(&xb), "via": "from_slice"}), || { fr[j] = Fr::from_slice(&xb); f_obs!(fr, FRB, j) });
                let f = ["add", "sub", "mul"][rng.gen_range(0..3)];
                out.call("mf", json!({"T": "Fr", "d": FRB + d, "fn": f, "a": FRB + i, "b": FRB + j}), || {
                    let (p, q) = (fr[i].unwrap(), fr[j].unwrap());
                    fr[d] = Some(match f { "add" => p + q, "sub" => p - q, _ => p * q });
                    f_obs!(fr, FRB, d)
                });
            } else {
                let (xa, xb) = poolq.pairs[rng.gen_range(0..poolq.pairs.len())].clone();
                let (i, j, d) = (0usize, 1usize, rng.gen_range(0..NF));
                out.call("mf", json!({"T": "Fq", "d": FQB + i, "fn": "from_slice", "in": b(&xa), "via": "from_slice"}), || { fq[i] = Fq::from_slice(&xa); f_obs!(fq, FQB, i) });
                out.call("mf", json!({"T": "Fq", "d": FQB + j, "fn": "from_slice", "in": b(&xb), "via": "from_slice"}), || { fq[j] = Fq::from_slice(&xb); f_obs!(fq, FQB, j) });
                let f = ["add", "sub", "mul"][rng.gen_range(0..3)];
                out.call("mf", json!({"T": "Fq", "d": FQB + d, "fn": f, "a": FQB + i, "b": FQB + j}), || {
                    let (p, q) = (fq[i].unwrap(), fq[j].unwrap());
                    fq[d] = Some(match f { "add" => p + q, "sub" => p - q, _ => p * q });
                    f_obs!(fq, FQB, d)
                });
            }
            continue;
        }
        let which = rng.gen_range(0..10);
        if which < 5 {
            // ---------------- Fr
            let d = rng.gen_range(0..NF);
            let (x, y) = (live(&fr, &mut rng), live(&fr, &mut rng));
            let c = rng.gen_range(0..16);
            match (c, x, y) {
                (0, _, _) => { let one = rng.gen(); out.call("mf", json!({"T": "Fr", "d": FRB + d, "fn": if one { "one" } else { "zero" }}), || { fr[d] = Some(if one { Fr::one() } else { Fr::zero() }); f_obs!(fr, FRB, d) }); }
                (1 | 2, _, _) | (_, None, _) | (_, _, None) => {
                    let v = rand_input(&mut rng, &poolr, &rb);
                    let tf = rng.gen_range(0..3) == 0;
                    out.call("mf", json!({"T": "Fr", "d": FRB + d, "fn": "from_slice", "in": b(&v), "via": if tf { "try_from" } else { "from_slice" }}), || {
                        let r = if tf { Fr::try_from(&v[..]).ok() } else { Fr::from_slice(&v) };
                        match r { Some(z) => { fr[d] = Some(z); f_obs!(fr, FRB, d) } None => outs! {"res" => Value::from("none")} }
                    });
                }
                (3, _, _) => {
                    let mut v = [0u8; 64];
                    let t = rand_input(&mut rng, &poolr, &rb);
                    let n = t.len().min(64);
                    v[64 - n..].copy_from_slice(&t[t.len() - n..]);
                    out.call("mf", json!({"T": "Fr", "d": FRB + d, "fn": "interpret", "in": b(&v)}), || { fr[d] = Some(Fr::interpret(&v)); f_obs!(fr, FRB, d) });
                }
                (4, _, _) => {
                    let n = rng.gen_range(1..100);
                    let mut s: String = (0..n).map(|_| (b'0' + rng.gen_range(0..10)) as char).collect();
                    if rng.gen_range(0..5) == 0 { let p = rng.gen_range(0..n); s.replace_range(p..p + 1, "x"); }
                    let cps: Vec<Value> = s.chars().map(|c| Value::from(c as u32)).collect();
                    out.call("mf", json!({"T": "Fr", "d": FRB + d, "fn": "from_str", "in": cps}), || match Fr::from_str(&s) { Ok(z) => { fr[d] = Some(z); f_obs!(fr, FRB, d) } Err(_) => outs! {"res" => Value::from("none")} });
                }
                (5, _, _) => {
                    let v = rand_input(&mut rng, &poolr, &rb);
                    out.call("mf", json!({"T": "Fr", "d": FRB + d, "fn": "from_hash", "in": b(&v)}), || match Fr::from_hash(&v) { Some(z) => { fr[d] = Some(z); f_obs!(fr, FRB, d) } None => outs! {"res" => Value::from("none")} });
                }
                (6, _, _) => {
                    let kind = rng.gen_range(0..4u8);
                    let c = [0u8, 0xff, 0x80, 1, rng.gen()][rng.gen_range(0..5)];
                    let seed: u64 = rng.gen();
                    let sname = ["const", "ones", "counter", "prng"][kind as usize];
                    out.call("mf", json!({"T": "Fr", "d": FRB + d, "fn": "random", "stream": sname, "c": c, "sseed": seed % 1000000}), || {
                        let mut s = Stream { kind, c, ctr: seed % 1000000, prng: rng_from(seed % 1000000, "stream") };
                        fr[d] = Some(Fr::random(&mut s));
                        f_obs!(fr, FRB, d)
                    });
                }
                (7..=9, Some(x), Some(y)) => {
                    let f = ["add", "sub", "mul"][(c - 7) as usize];
                    out.call("mf", json!({"T": "Fr", "d": FRB + d, "fn": f, "a": FRB + x, "b": FRB + y}), || {
                        let (p, q) = (fr[x].unwrap(), fr[y].unwrap());
                        fr[d] = Some(match f { "add" => p + q, "sub" => p - q, _ => p * q });
                        f_obs!(fr, FRB, d)
                    });
                }
                (10, Some(x), _) => { out.call("mf", json!({"T": "Fr", "d": FRB + d, "fn": "neg", "a": FRB + x}), || { fr[d] = Some(-fr[x].unwrap()); f_obs!(fr, FRB, d) }); }
                (11, Some(x), _) => { let s = fr[x].unwrap(); out.call("mf", json!({"T": "Fr", "d": FRB + d, "fn": "inv", "a": FRB + x}), || match s.inverse() { Some(z) => { fr[d] = Some(z); f_obs!(fr, FRB, d) } None => outs! {"res" => Value::from("none")} }); }
                (12, Some(x), Some(y)) => { out.call("mf", json!({"T": "Fr", "d": FRB + d, "fn": "pow", "a": FRB + x, "b": FRB + y}), || { fr[d] = Some(fr[x].unwrap().pow(fr[y].unwrap())); f_obs!(fr, FRB, d) }); }
                (_, Some(x), _) => {
                    let i = if rng.gen_range(0..4) == 0 { rng.gen_range(256..=300usize) } else { rng.gen_range(0..256usize) };
                    let to: bool = rng.gen();
                    out.call("mf", json!({"T": "Fr", "d": FRB + d, "fn": "set_bit", "a": FRB + x, "i": i, "to": to}), || { let mut z = fr[x].unwrap(); z.set_bit(i, to); fr[d] = Some(z); f_obs!(fr, FRB, d) });
                }
            }
        } else if which < 8 {
            // ---------------- Fq
            let d = rng.gen_range(0..NF);
            let (x, y) = (live(&fq, &mut rng), live(&fq, &mut rng));
            let c = rng.gen_range(0..14);
            match (c, x, y) {
                (0, _, _) => { let one = rng.gen(); out.call("mf", json!({"T": "Fq", "d": FQB + d, "fn": if one { "one" } else { "zero" }}), || { fq[d] = Some(if one { Fq::one() } else { Fq::zero() }); f_obs!(fq, FQB, d) }); }
                (1 | 2, _, _) | (_, None, _) | (_, _, None) => {
                    let v = rand_input(&mut rng, &poolq, &qb);
                    let tf = rng.gen_range(0..3) == 0;
                    out.call("mf", json!({"T": "Fq", "d": FQB + d, "fn": "from_slice", "in": b(&v), "via": if tf { "try_from" } else { "from_slice" }}), || {
                        let r = if tf { Fq::try_from(&v[..]).ok() } else { Fq::from_slice(&v) };
                        match r { Some(z) => { fq[d] = Some(z); f_obs!(fq, FQB, d) } None => outs! {"res" => Value::from("none")} }
                    });
                }
                (3, _, _) => {
                    let mut v = [0u8; 64];
                    let t = rand_input(&mut rng, &poolq, &qb);
                    let n = t.len().min(64);
                    v[64 - n..].copy_from_slice(&t[t.len() - n..]);
                    out.call("mf", json!({"T": "Fq", "d": FQB + d, "fn": "interpret", "in": b(&v)}), || { fq[d] = Some(Fq::interpret(&v)); f_obs!(fq, FQB, d) });
                }
                (4, _, _) => {
                    let n = rng.gen_range(1..100);
                    let s: String = (0..n).map(|_| (b'0' + rng.gen_range(0..10)) as char).collect();
                    let cps: Vec<Value> = s.chars().map(|c| Value::from(c as u32)).collect();
                    out.call("mf", json!({"T": "Fq", "d": FQB + d, "fn": "from_str", "in": cps}), || match Fq::from_str(&s) { Ok(z) => { fq[d] = Some(z); f_obs!(fq, FQB, d) } Err(_) => outs! {"res" => Value::from("none")} });
                }
                (5..=7, Some(x), Some(y)) => {
                    let f = ["add", "sub", "mul"][(c - 5) as usize];
                    out.call("mf", json!({"T": "Fq", "d": FQB + d, "fn": f, "a": FQB + x, "b": FQB + y}), || {
                        let (p, q) = (fq[x].unwrap(), fq[y].unwrap());
                        fq[d] = Some(match f { "add" => p + q, "sub" => p - q, _ => p * q });
                        f_obs!(fq, FQB, d)
                    });
                }
                (8, Some(x), _) => { out.call("mf", json!({"T": "Fq", "d": FQB + d, "fn": "neg", "a": FQB + x}), || { fq[d] = Some(-fq[x].unwrap()); f_obs!(fq, FQB, d) }); }
                (9, Some(x), _) => { let s = fq[x].unwrap(); out.call("mf", json!({"T": "Fq", "d": FQB + d, "fn": "inv", "a": FQB + x}), || match s.inverse() { Some(z) => { fq[d] = Some(z); f_obs!(fq, FQB, d) } None => outs! {"res" => Value::from("none")} }); }
                (10, Some(x), Some(y)) => { out.call("mf", json!({"T": "Fq", "d": FQB + d, "fn": "pow", "a": FQB + x, "b": FQB + y}), || { fq[d] = Some(fq[x].unwrap().pow(fq[y].unwrap())); f_obs!(fq, FQB, d) }); }
                (11, Some(x), _) => { let s = fq[x].unwrap(); out.call("mf", json!({"T": "Fq", "d": FQB + d, "fn": "sqrt", "a": FQB + x}), || match s.sqrt() { Some(z) => { fq[d] = Some(z); f_obs!(fq, FQB, d) } None => outs! {"res" => Value::from("none")} }); }
                (_, _, _) => {
                    // real / imaginary part of an Fq2 register
                    if let Some(z) = live(&f2, &mut rng) {
                        let re = rng.gen();
                        out.call("mf", json!({"T": "Fq", "d": FQB + d, "fn": if re { "real" } else { "imaginary" }, "a": F2B + z}), || { fq[d] = Some(if re { f2[z].unwrap().real() } else { f2[z].unwrap().imaginary() }); f_obs!(fq, FQB, d) });
                    }
                }
            }
        } else {
            // ---------------- Fq2
            let d = rng.gen_range(0..3);
            let (x, y) = (live(&f2, &mut rng), live(&f2, &mut rng));
            let c = rng.gen_range(0..11);
            match (c, x, y) {
                (0, _, _) => { let one = rng.gen(); out.call("mf", json!({"T": "Fq2", "d": F2B + d, "fn": if one { "one" } else { "zero" }}), || { f2[d] = Some(if one { Fq2::one() } else { Fq2::zero() }); f_obs!(f2, F2B, d) }); }
                (1 | 2, _, _) | (_, None, _) | (_, _, None) => {
                    if let (Some(p), Some(q)) = (live(&fq, &mut rng), live(&fq, &mut rng)) {
                        out.call("mf", json!({"T": "Fq2", "d": F2B + d, "fn": "new", "a": FQB + p, "b": FQB + q}), || { f2[d] = Some(Fq2::new(fq[p].unwrap(), fq[q].unwrap())); f_obs!(f2, F2B, d) });
                    }
                }
                (3..=5, Some(x), Some(y)) => {
                    let f = ["add", "sub", "mul"][(c - 3) as usize];
                    out.call("mf", json!({"T": "Fq2", "d": F2B + d, "fn": f, "a": F2B + x, "b": F2B + y}), || {
                        let (p, q) = (f2[x].unwrap(), f2[y].unwrap());
                        f2[d] = Some(match f { "add" => p + q, "sub" => p - q, _ => p * q });
                        f_obs!(f2, F2B, d)
                    });
                }
                (6, Some(x), _) => { out.call("mf", json!({"T": "Fq2", "d": F2B + d, "fn": "neg", "a": F2B + x}), || { f2[d] = Some(-f2[x].unwrap()); f_obs!(f2, F2B, d) }); }
                (7 | 8, Some(x), _) => { let s = f2[x].unwrap(); out.call("mf", json!({"T": "Fq2", "d": F2B + d, "fn": "sqrt", "a": F2B + x}), || match s.sqrt() { Some(z) => { f2[d] = Some(z); f_obs!(f2, F2B, d) } None => outs! {"res" => Value::from("none")} }); }
                (9, Some(x), _) => {
                    // a composition of public calls: the conjugate of x through real / imaginary / neg / new, then x * conj(x)
                    // (a product whose imaginary part vanishes although every contribution is non-zero)
                    let (r0, r1) = (0usize, 1usize);
                    out.call("mf", json!({"T": "Fq", "d": FQB + r0, "fn": "real", "a": F2B + x}), || { fq[r0] = Some(f2[x].unwrap().real()); f_obs!(fq, FQB, r0) });
                    out.call("mf", json!({"T": "Fq", "d": FQB + r1, "fn": "imaginary", "a": F2B + x}), || { fq[r1] = Some(f2[x].unwrap().imaginary()); f_obs!(fq, FQB, r1) });
                    out.call("mf", json!({"T": "Fq", "d": FQB + r1, "fn": "neg", "a": FQB + r1}), || { fq[r1] = Some(-fq[r1].unwrap()); f_obs!(fq, FQB, r1) });
                    let c = (x + 1) % 3;
                    out.call("mf", json!({"T": "Fq2", "d": F2B + c, "fn": "new", "a": FQB + r0, "b": FQB + r1}), || { f2[c] = Some(Fq2::new(fq[r0].unwrap(), fq[r1].unwrap())); f_obs!(f2, F2B, c) });
                    out.call("mf", json!({"T": "Fq2", "d": F2B + d, "fn": "mul", "a": F2B + x, "b": F2B + c}), || { f2[d] = Some(f2[x].unwrap() * f2[c].unwrap()); f_obs!(f2, F2B, d) });
                }
                (_, Some(x), _) => { out.call("mf", json!({"T": "Fq2", "d": F2B + d, "fn": "copy", "a": F2B + x}), || { f2[d] = f2[x]; f_obs!(f2, F2B, d) }); }
            }
        }
    }
}
