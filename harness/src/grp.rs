//! A uniform view of G1 and G2 for the generic group suites.
#![allow(dead_code)]
use crate::common::*;
use crate::reps::*;
use rand::rngs::StdRng;
use rand::Rng;
use serde_json::{json, Value};
use sm9_core::*;
use std::ops::{Add, Mul, Neg, Sub};

pub trait Grp: Copy + PartialEq + Add<Output = Self> + Sub<Output = Self> + Neg<Output = Self> + Mul<Fr, Output = Self> {
    const NAME: &'static str;
    const CLEN: usize;
    fn gen() -> Self;
    fn zero() -> Self;
    fn rmul(k: Fr, p: Self) -> Self;
    fn is_zero_(&self) -> bool;
    fn normalize_(&mut self);
    fn jac(&self) -> Value;
    fn rep(rng: &mut StdRng, p: Self, tag: &str) -> Self;
    /// affine coordinates through Affine*::from_jacobian (None for the identity)
    fn affine(&self) -> Option<(Vec<u8>, Vec<u8>)>;
    /// Affine*::new on raw coordinate bytes (coordinates given as canonical encodings), then From<Affine*>
    fn affine_new(x: &[u8], y: &[u8]) -> Option<Self>;
    fn enc(&self, fmt: &str) -> Vec<u8>;
    fn dec(bytes: &[u8], fmt: &str) -> Option<Self>;
    /// the order-3 endomorphism (x, y) -> (w x, y), w a primitive cube root of unity of Fq, applied to the representative as it is
    fn endo(&self) -> Self;
    /// a representative of self whose raw coordinate `which` (0 x, 1 y, 2 z) equals the same raw coordinate of `other`
    fn share_coord(&self, other: &Self, which: usize) -> Option<Self>;
    /// (x, y, -z): the opposite point sharing both raw x and y
    fn flip_z(&self) -> Self;
    /// self (normalised first) rescaled by a pattern z (real for G2) drawn from the process-wide list, when there is one
    fn rescale_pattern(&self, rng: &mut StdRng) -> Option<Self>;
    /// the "S" representative of self in rescaling class `sel` (deterministic sweep of the classes)
    fn rep_class(rng: &mut StdRng, p: Self, sel: usize) -> Self;
    const NSEL: usize;
    /// a representative whose raw y is +-1/2 (the first doubling then returns z3 = +-z), when one exists
    fn half_y(&self, neg: bool) -> Option<Self>;
}

/// a primitive cube root of unity of Fq: (-1 + sqrt(-3)) / 2
pub fn cube_root_of_unity() -> Fq {
    let three = Fq::one() + Fq::one() + Fq::one();
    let s = (-three).sqrt().expect("q = 1 mod 3");
    let two_inv = (Fq::one() + Fq::one()).inverse().unwrap();
    (s - Fq::one()) * two_inv
}

impl Grp for G1 {
    const NAME: &'static str = "G1";
    const CLEN: usize = 32;
    fn gen() -> Self { G1::one() }
    fn zero() -> Self { <G1 as Group>::zero() }
    fn rmul(k: Fr, p: Self) -> Self { k * p }
    fn is_zero_(&self) -> bool { self.is_zero() }
    fn normalize_(&mut self) { self.normalize() }
    fn jac(&self) -> Value { jac1(self) }
    fn rep(rng: &mut StdRng, p: Self, tag: &str) -> Self { g1_rep(rng, p, tag) }
    fn affine(&self) -> Option<(Vec<u8>, Vec<u8>)> {
        AffineG1::from_jacobian(*self).map(|a| (a.x().to_slice().to_vec(), a.y().to_slice().to_vec()))
    }
    fn affine_new(x: &[u8], y: &[u8]) -> Option<Self> {
        AffineG1::new(Fq::from_slice(x).unwrap(), Fq::from_slice(y).unwrap()).ok().map(G1::from)
    }
    fn enc(&self, fmt: &str) -> Vec<u8> {
        match fmt {
            "raw" => self.to_slice().to_vec(),
            "unc" => self.to_uncompressed().to_vec(),
            _ => self.to_compressed().to_vec(),
        }
    }
    fn dec(bytes: &[u8], fmt: &str) -> Option<Self> {
        match fmt {
            "raw" => G1::from_slice(bytes).ok(),
            "unc" => G1::from_uncompressed(bytes).ok(),
            _ => G1::from_compressed(bytes).ok(),
        }
    }
    fn endo(&self) -> Self {
        G1::new(self.x() * cube_root_of_unity(), self.y(), self.z())
    }
    fn share_coord(&self, other: &Self, which: usize) -> Option<Self> {
        g1_coord(*self, which, [other.x(), other.y(), other.z()][which.min(2)])
    }
    fn flip_z(&self) -> Self { G1::new(self.x(), self.y(), -self.z()) }
    fn rescale_pattern(&self, rng: &mut StdRng) -> Option<Self> {
        if self.is_zero() { return None; }
        let z = pattern_z(rng)?;
        let mut n = *self;
        n.normalize();
        Some(g1_scale(n, z))
    }
    fn rep_class(rng: &mut StdRng, p: Self, sel: usize) -> Self { g1_rep_class(rng, p, sel) }
    const NSEL: usize = G1_NSEL;
    fn half_y(&self, neg: bool) -> Option<Self> {
        let h = (Fq::one() + Fq::one()).inverse()?;
        g1_coord(*self, 1, if neg { -h } else { h })
    }
}

impl Grp for G2 {
    const NAME: &'static str = "G2";
    const CLEN: usize = 64;
    fn gen() -> Self { G2::one() }
    fn zero() -> Self { <G2 as Group>::zero() }
    fn rmul(k: Fr, p: Self) -> Self { k * p }
    fn is_zero_(&self) -> bool { self.is_zero() }
    fn normalize_(&mut self) { self.normalize() }
    fn jac(&self) -> Value { jac2(self) }
    fn rep(rng: &mut StdRng, p: Self, tag: &str) -> Self { g2_rep(rng, p, tag) }
    fn affine(&self) -> Option<(Vec<u8>, Vec<u8>)> {
        AffineG2::from_jacobian(*self).map(|a| (a.x().to_slice().to_vec(), a.y().to_slice().to_vec()))
    }
    fn affine_new(x: &[u8], y: &[u8]) -> Option<Self> {
        let fx = Fq2::new(Fq::from_slice(&x[32..]).unwrap(), Fq::from_slice(&x[..32]).unwrap());
        let fy = Fq2::new(Fq::from_slice(&y[32..]).unwrap(), Fq::from_slice(&y[..32]).unwrap());
        AffineG2::new(fx, fy).ok().map(G2::from)
    }
    fn enc(&self, fmt: &str) -> Vec<u8> {
        match fmt {
            "raw" => self.to_slice().to_vec(),
            "unc" => self.to_uncompressed().to_vec(),
            _ => self.to_compressed().to_vec(),
        }
    }
    fn dec(bytes: &[u8], fmt: &str) -> Option<Self> {
        match fmt {
            "raw" => G2::from_slice(bytes).ok(),
            "unc" => G2::from_uncompressed(bytes).ok(),
            _ => G2::from_compressed(bytes).ok(),
        }
    }
    fn endo(&self) -> Self {
        G2::new(self.x() * Fq2::new(cube_root_of_unity(), Fq::zero()), self.y(), self.z())
    }
    fn share_coord(&self, other: &Self, which: usize) -> Option<Self> {
        g2_coord(*self, which, [other.x(), other.y(), other.z()][which.min(2)])
    }
    fn flip_z(&self) -> Self { G2::new(self.x(), self.y(), -self.z()) }
    fn rescale_pattern(&self, rng: &mut StdRng) -> Option<Self> {
        if self.is_zero() { return None; }
        let z = pattern_z(rng)?;
        let mut n = *self;
        n.normalize();
        Some(g2_scale(n, if rng.gen() { Fq2::new(z.inverse()?, Fq::zero()) } else { Fq2::new(Fq::zero(), z) }))
    }
    fn rep_class(rng: &mut StdRng, p: Self, sel: usize) -> Self { g2_rep_class(rng, p, sel) }
    const NSEL: usize = G2_NSEL;
    fn half_y(&self, neg: bool) -> Option<Self> {
        let h = (Fq::one() + Fq::one()).inverse()?;
        g2_coord(*self, 1, Fq2::new(if neg { -h } else { h }, Fq::zero()))
    }
}

pub fn opt_jac<G: Grp>(o: Option<G>) -> Value {
    match o {
        Some(p) => json!({"t": "some", "v": p.jac()}),
        None => none(),
    }
}
/// decoder result as seen by a user: Ok -> the re-encoding in the same format, Err
pub fn dec_result<G: Grp>(bytes: &[u8], fmt: &str) -> Value {
    match G::dec(bytes, fmt) {
        Some(p) => {
            if p.is_zero_() {
                json!({"t": "okzero", "v": []})
            } else {
                json!({"t": "ok", "v": b(&p.enc(fmt)), "jac": p.jac()})
            }
        }
        None => json!({"t": "err", "v": []}),
    }
}
