-------------------------------- MODULE Trace --------------------------------
(* Trace specification (implementation -> specification).  The ndjson file     *)
(* named by the environment variable TRACE holds one record per public call of *)
(* the real library.  TraceNext consumes exactly one record per step, lets the *)
(* Level-A specification compute the outputs from the recorded inputs (and,    *)
(* for the stateful events, from the abstract register file the specification  *)
(* itself maintains), and records every disagreement in `bad` instead of       *)
(* blocking, so that the rest of the trace is still examined.                  *)
EXTENDS TraceTower, Json, IOUtils
Rec == ndJsonDeserialize(IOEnv.TRACE)
\* NB: variable names must not coincide with any LET-bound name of the (instantiated) Level-A modules: TLC then treats
\* constant definitions such as GT as state-dependent and re-evaluates them at every use (measured: 1.5 s per pairing event)
VARIABLES tpos, tbad, tcov, tm          \* position in the trace, mismatches so far, [ok, reg]: verdict of the last step and the register file
vars == <<tpos, tbad, tcov, tm>>
Known(e) == e.op \in {"f.add", "f.sub", "f.mul", "f.neg", "f.inv", "f.pow", "f.is_zero", "f.is_even", "f.eq", "f.sqrt",
                      "f.from_slice", "f.try_from", "f.interpret", "f.from_str", "f.from_hash", "f.roundtrip",
                      "f.to_big_endian", "f.set_bit",
                      "f2.add", "f2.sub", "f2.mul", "f2.neg", "f2.parts", "f2.new", "f2.from_slice", "f2.eq", "f2.g2dbl",
                      "f2.laws", "f2.sqrt",
                      "g.add", "g.sub", "g.neg", "g.laws", "g.mul", "g.rmul", "g.modlaws", "g.eq", "g.normalize", "g.to_affine",
                      "g.encode", "g.decode", "g.affine_new", "g.api",
                      "gt.one", "gt.mul", "gt.eq", "gt.pow", "gt.inv", "gt.laws", "pair", "pair.laws", "prep.reuse"} \cup TowerOps
Chk(e) == CASE e.op \in {"f.add", "f.sub", "f.mul"} -> ChkFBin(e)
            [] e.op = "f.neg" -> ChkFNeg(e)
            [] e.op = "f.inv" -> ChkFInv(e)
            [] e.op = "f.pow" -> ChkFPow(e)
            [] e.op = "f.is_zero" -> ChkFIsZero(e)
            [] e.op = "f.is_even" -> ChkFIsEven(e)
            [] e.op = "f.eq" -> ChkFEq(e)
            [] e.op = "f.sqrt" -> ChkFSqrt(e)
            [] e.op \in {"f.from_slice", "f.try_from"} -> ChkFromSlice(e)
            [] e.op = "f.interpret" -> ChkInterpret(e)
            [] e.op = "f.from_str" -> ChkFromStr(e)
            [] e.op = "f.from_hash" -> ChkFromHash(e)
            [] e.op = "f.roundtrip" -> ChkRoundtrip(e)
            [] e.op = "f.to_big_endian" -> ChkToBigEndian(e)
            [] e.op = "f.set_bit" -> ChkSetBit(e)
            [] e.op \in {"f2.add", "f2.sub", "f2.mul"} -> ChkF2Bin(e)
            [] e.op = "f2.neg" -> ChkF2Neg(e)
            [] e.op = "f2.parts" -> ChkF2Parts(e)
            [] e.op = "f2.new" -> ChkF2New(e)
            [] e.op = "f2.from_slice" -> ChkF2FromSlice(e)
            [] e.op = "f2.eq" -> ChkF2Eq(e)
            [] e.op = "f2.g2dbl" -> ChkF2G2Dbl(e)
            [] e.op = "f2.laws" -> ChkF2Laws(e)
            [] e.op = "f2.sqrt" -> ChkF2Sqrt(e)
            [] e.op \in {"g.add", "g.sub"} -> ChkGAddSub(e)
            [] e.op = "g.neg" -> ChkGNeg(e)
            [] e.op = "g.laws" -> ChkGLaws(e)
            [] e.op \in {"g.mul", "g.rmul"} -> ChkGMul(e)
            [] e.op = "g.modlaws" -> ChkGModLaws(e)
            [] e.op = "g.eq" -> ChkGEq(e)
            [] e.op = "g.normalize" -> ChkGNormalize(e)
            [] e.op = "g.to_affine" -> ChkGToAffine(e)
            [] e.op = "g.encode" -> ChkGEncode(e)
            [] e.op = "g.decode" -> ChkGDecode(e)
            [] e.op = "g.affine_new" -> ChkGAffineNew(e)
            [] e.op = "g.api" -> ChkGApi(e)
            [] e.op = "gt.one" -> ChkGtOne(e)
            [] e.op = "gt.mul" -> ChkGtMul(e)
            [] e.op = "gt.eq" -> ChkGtEq(e)
            [] e.op = "gt.pow" -> ChkGtPow(e)
            [] e.op = "gt.inv" -> ChkGtInv(e)
            [] e.op = "gt.laws" -> ChkGtLaws(e)
            [] e.op = "pair" -> ChkPair(e)
            [] e.op = "pair.laws" -> ChkPairLaws(e)
            [] e.op = "prep.reuse" -> ChkPrepReuse(e)
            [] e.op \in TowerOps -> ChkTower(e)
\* a panic or a hang of the code under test is never allowed; an unknown event is a tooling error and is reported too
AllCovNames == CovNames \cup {"drift.same", "drift.diff", "drift.miller_g2.same", "drift.miller_g2.diff",
                                "drift.miller_prepared.same", "drift.miller_prepared.diff", "drift.consts.same", "drift.consts.diff"}
KnownAny(e) == Known(e) \/ e.op \in MachineOps
Why(e) == IF ~KnownAny(e) THEN "unknown-op" ELSE IF e.panic THEN "panic" ELSE "mismatch"
Init == tpos = 1 /\ tbad = <<>> /\ tm = [ok |-> TRUE, reg |-> <<>>] /\ tcov = [c \in AllCovNames |-> 0]
Next == /\ tpos <= Len(Rec)
        /\ tpos' = tpos + 1
        /\ tm' = LET e == Rec[tpos]
                 IN IF ~KnownAny(e) \/ e.panic THEN [ok |-> FALSE, reg |-> tm.reg]
                    ELSE IF e.op \in MachineOps THEN MStep(e, tm.reg)          \* stateful: the specification's own registers
                    ELSE [ok |-> Chk(e), reg |-> tm.reg]                       \* stateless: outputs from logged inputs
        /\ tbad' = IF tm'.ok \/ Len(tbad) >= 200 THEN tbad
                   ELSE Append(tbad, [seq |-> Rec[tpos].seq, op |-> Rec[tpos].op, why |-> Why(Rec[tpos])])
        /\ tcov' = LET e == Rec[tpos]                                             \* input-class counters (coverage only, never a verdict)
                   IN IF e.op \in ({"f.mul", "f.add", "f.sub", "f2.mul", "x.fq4.mul"} \cup DriftOps \cup {"x.miller", "x.consts"}) /\ ~e.panic /\ tm'.ok
                      THEN LET cs == ClsOf(e) \cup DriftCls(e) \cup (IF e.op = "x.miller" THEN MillerDrift(e) ELSE {}) \cup (IF e.op = "x.consts" THEN ConstsDrift(e) ELSE {}) IN [c \in AllCovNames |-> IF c \in cs THEN tcov[c] + 1 ELSE tcov[c]]
                      ELSE tcov
Done == tpos = Len(Rec) + 1 => PrintT(<<"DONE", ToJson([n |-> Len(Rec), consumed |-> tpos - 1, bad |-> tbad, cov |-> tcov])>>)
=============================================================================
