------------------------------- MODULE TowerAlgo -------------------------------
(* The tower engine of src/fields/{fq2,fq4,fq12}.rs, transcribed ONCE over a     *)
(* prime field given by operator parameters:                                      *)
(*   Fq2  = Fq[u]/(u^2+2)    elements <<c0, c1>>          (mul as two sums of     *)
(*                                                          products, complex      *)
(*                                                          squaring, inverse)     *)
(*   Fq4  = Fq2[v]/(v^2-u)   elements <<c0, c1>> over Fq2 (the four interleaved    *)
(*                                                          sums, squaring, mul_1, *)
(*                                                          inverse, Frobenius)    *)
(*   Fq12 = Fq4[w]/(w^3-v)   elements <<c0, c1, c2>>       (Karatsuba mul, CH-SQR2 *)
(*                                                          squaring, mul_015,     *)
(*                                                          inverse, Frobenius)    *)
(* The Frobenius constants of the code (SM9_ALPHA1..5, SM9_BETA) are literals; in  *)
(* the transcription they are the powers C^k of the single constant C = w^(q-1).   *)
(* Instantiated over a tiny prime field by ImplTower (exhaustive / sampled against  *)
(* the polynomial ring F_q[w]/(w^12+2)) and at SM9 size by the trace specification  *)
(* (drift check against the hook's outputs).                                        *)
LOCAL INSTANCE Naturals
LOCAL INSTANCE Sequences
CONSTANTS FAdd(_, _), FSub(_, _), FMul(_, _), FInv(_), FZero, FOne,
          C                                \* w^(q-1) = (-2)^((q-1)/12), an element of F_q
FNeg(a) == FSub(FZero, a)
FDbl(a) == FAdd(a, a)
\* ---------------------------------------------------------------- Fq2
Z2 == << FZero, FZero >>
O2 == << FOne, FZero >>
Add2(x, y) == << FAdd(x[1], y[1]), FAdd(x[2], y[2]) >>
Sub2(x, y) == << FSub(x[1], y[1]), FSub(x[2], y[2]) >>
Neg2(x) == << FNeg(x[1]), FNeg(x[2]) >>
Dbl2(x) == Add2(x, x)
\* mul_inplace: c0 = a0 b0 + (-2 a1) b1, c1 = a0 b1 + a1 b0 (each one sum of products)
Mul2(x, y) == << FAdd(FMul(x[1], y[1]), FMul(FNeg(FDbl(x[2])), y[2])), FAdd(FMul(x[1], y[2]), FMul(x[2], y[1])) >>
\* squared (complex squaring): v0 = a0 a1; c0 = (a0 + a1)(a0 - 2 a1) + v0; c1 = 2 v0
Sqr2(x) == LET v0 == FMul(x[1], x[2]) IN << FAdd(FMul(FAdd(x[1], x[2]), FSub(x[1], FDbl(x[2]))), v0), FDbl(v0) >>
Scale2(x, s) == << FMul(x[1], s), FMul(x[2], s) >>
Conj2(x) == << x[1], FNeg(x[2]) >>                                  \* unitary_inverse
MulNR2(x) == << FNeg(FDbl(x[2])), x[1] >>                           \* times u
Inv2(x) == LET t == FInv(FAdd(FMul(x[1], x[1]), FDbl(FMul(x[2], x[2])))) IN << FMul(x[1], t), FNeg(FMul(x[2], t)) >>
\* ---------------------------------------------------------------- Fq4
Z4 == << Z2, Z2 >>
O4 == << O2, Z2 >>
Add4(x, y) == << Add2(x[1], y[1]), Add2(x[2], y[2]) >>
Sub4(x, y) == << Sub2(x[1], y[1]), Sub2(x[2], y[2]) >>
Neg4(x) == << Neg2(x[1]), Neg2(x[2]) >>
Dbl4(x) == Add4(x, x)
MulNR4(x) == << MulNR2(x[2]), x[1] >>                               \* times v
Conj4(x) == << x[1], Neg2(x[2]) >>
Scale4(x, s) == << Mul2(x[1], s), Mul2(x[2], s) >>                  \* by an Fq2 element
ScaleFq4(x, s) == << Scale2(x[1], s), Scale2(x[2], s) >>
\* mul_inplace: the four sums of four products (a = x, b = y; indices a_{ij}: Fq4 component i, Fq2 component j)
Mul4(x, y) ==
    LET a00 == x[1][1]  a01 == x[1][2]  a10 == x[2][1]  a11 == x[2][2]
        b00 == y[1][1]  b01 == y[1][2]  b10 == y[2][1]  b11 == y[2][2]
        n01 == FNeg(FDbl(a01))  n10 == FNeg(FDbl(a10))  n11 == FNeg(FDbl(a11))
        S(p1, p2, p3, p4) == FAdd(FAdd(p1, p2), FAdd(p3, p4))
    IN << << S(FMul(a00, b00), FMul(n01, b01), FMul(n10, b11), FMul(n11, b10)),
             S(FMul(a00, b01), FMul(a01, b00), FMul(a10, b10), FMul(n11, b11)) >>,
          << S(FMul(a00, b10), FMul(n01, b11), FMul(a10, b00), FMul(n11, b01)),
             S(FMul(a00, b11), FMul(a01, b10), FMul(a10, b01), FMul(a11, b00)) >> >>
Mul1_4(x, y) == << MulNR2(Mul2(x[2], y[2])), Mul2(x[1], y[2]) >>    \* mul_1: y.c0 = 0
Sqr4(x) == LET v0 == Mul2(x[1], x[2])
           IN << Sub2(Sub2(Mul2(Add2(x[1], x[2]), Add2(x[1], MulNR2(x[2]))), v0), MulNR2(v0)), Dbl2(v0) >>
Inv4(x) == LET t == Inv2(Sub2(Sqr2(x[1]), MulNR2(Sqr2(x[2])))) IN << Mul2(x[1], t), Neg2(Mul2(x[2], t)) >>
CP(k) == IF k = 0 THEN FOne ELSE IF k = 1 THEN C ELSE FMul(C, IF k = 2 THEN C ELSE IF k = 3 THEN FMul(C, C) ELSE IF k = 4 THEN FMul(C, FMul(C, C))
         ELSE FMul(FMul(C, C), FMul(C, C)))                         \* C^k, k in 0..5
\* frobenius_map(code): code = 10 * power + position of the F_q^4 coefficient inside F_q^12
Frob4(x, code) ==
    CASE code = 10 -> << Conj2(x[1]), Scale2(Conj2(x[2]), CP(3)) >>
      [] code = 11 -> << Scale2(Conj2(x[1]), CP(1)), Scale2(Conj2(x[2]), CP(4)) >>
      [] code = 12 -> << Scale2(Conj2(x[1]), CP(2)), Scale2(Conj2(x[2]), CP(5)) >>
      [] code = 21 -> ScaleFq4(Conj4(x), CP(2))
      [] code = 22 -> ScaleFq4(Conj4(x), CP(4))
      [] code = 30 -> << Conj2(x[1]), Neg2(Mul2(Conj2(x[2]), << CP(3), FZero >>)) >>
      [] code = 31 -> << Mul2(Conj2(x[1]), << CP(3), FZero >>), Conj2(x[2]) >>
      [] code = 32 -> << Neg2(Conj2(x[1])), Mul2(Conj2(x[2]), << CP(3), FZero >>) >>
\* ---------------------------------------------------------------- Fq12
O12 == << O4, Z4, Z4 >>
Add12(x, y) == << Add4(x[1], y[1]), Add4(x[2], y[2]), Add4(x[3], y[3]) >>
Sub12(x, y) == << Sub4(x[1], y[1]), Sub4(x[2], y[2]), Sub4(x[3], y[3]) >>
MulNR12(x) == << MulNR4(x[3]), x[1], x[2] >>                        \* times w
Scale12(x, s) == << Mul4(x[1], s), Mul4(x[2], s), Mul4(x[3], s) >>
\* mul_inplace (Karatsuba)
Mul12(x, y) ==
    LET aa == Mul4(x[1], y[1])  bb == Mul4(x[2], y[2])  cc == Mul4(x[3], y[3])
    IN << Add4(MulNR4(Sub4(Sub4(Mul4(Add4(x[2], x[3]), Add4(y[2], y[3])), bb), cc)), aa),
          Add4(Sub4(Sub4(Mul4(Add4(x[1], x[2]), Add4(y[1], y[2])), aa), bb), MulNR4(cc)),
          Sub4(Add4(Sub4(Mul4(Add4(x[1], x[3]), Add4(y[1], y[3])), aa), bb), cc) >>
\* squared (CH-SQR2)
Sqr12(x) ==
    LET s0 == Sqr4(x[1])  s1 == Dbl4(Mul4(x[1], x[2]))  s2 == Sqr4(Add4(Sub4(x[1], x[2]), x[3]))
        s3 == Dbl4(Mul4(x[2], x[3]))  s4 == Sqr4(x[3])
    IN << Add4(s0, MulNR4(s3)), Add4(s1, MulNR4(s4)), Sub4(Sub4(Add4(Add4(s1, s2), s3), s0), s4) >>
\* mul_015: y.c1 = 0, y.c2 = (0, *)
Mul015(x, y) ==
    LET aa == Mul4(x[1], y[1])  ba == Mul4(x[2], y[1])  ca == Mul4(x[3], y[1])
        ac == Mul1_4(x[1], y[3])  bc == Mul1_4(x[2], y[3])  cc == Mul1_4(x[3], y[3])
    IN << Add4(aa, MulNR4(bc)), Add4(ba, MulNR4(cc)), Add4(ca, ac) >>
Inv12(x) ==
    LET c0 == Sub4(Sqr4(x[1]), Mul4(x[2], MulNR4(x[3])))
        c1 == Sub4(MulNR4(Sqr4(x[3])), Mul4(x[1], x[2]))
        c2 == Sub4(Sqr4(x[2]), Mul4(x[1], x[3]))
        t == Inv4(Add4(MulNR4(Add4(Mul4(x[3], c1), Mul4(x[2], c2))), Mul4(x[1], c0)))
    IN << Mul4(t, c0), Mul4(t, c1), Mul4(t, c2) >>
Frob12(x, k) ==
    CASE k = 1 -> << Frob4(x[1], 10), Frob4(x[2], 11), Frob4(x[3], 12) >>
      [] k = 2 -> << Conj4(x[1]), Frob4(x[2], 21), Frob4(x[3], 22) >>
      [] k = 3 -> << Frob4(x[1], 30), Frob4(x[2], 31), Frob4(x[3], 32) >>
      [] k = 6 -> << Conj4(x[1]), Neg4(Conj4(x[2])), Conj4(x[3]) >>
\* ---------------------------------------------------------------- tower <-> polynomial basis: (k, j, i) -> w^(k + 3j + 6i)
ToPoly(x) == << x[1][1][1], x[2][1][1], x[3][1][1], x[1][2][1], x[2][2][1], x[3][2][1],
                x[1][1][2], x[2][1][2], x[3][1][2], x[1][2][2], x[2][2][2], x[3][2][2] >>
FromPoly(a) == << << << a[1], a[7] >>, << a[4], a[10] >> >>, << << a[2], a[8] >>, << a[5], a[11] >> >>, << << a[3], a[9] >>, << a[6], a[12] >> >> >>
=============================================================================
