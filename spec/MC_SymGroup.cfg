CONSTANTS K = 4
NReg = 2
Scalars <- MCScalars
WithRescale = TRUE
INIT Init
NEXT Next
INVARIANT TypeOK
CHECK_DEADLOCK FALSE
