---------------------------- MODULE MC_MillerToy ----------------------------
(* Level B for the Miller loops: MillerAlgo (the transcription of both loops of  *)
(* src/pairings.rs) instantiated on the toy BN curve t = 82 on native integers,  *)
(* compared with the TEXTBOOK pairing of the generic Level-A modules: for a grid *)
(* of multiples aP1, bP2 both transcribed loops, followed by the textbook final   *)
(* exponentiation, must give the textbook pairing value.                          *)
EXTENDS MC_Toy82
Half == F!FInv(2)
PiA == C1                                   \* w^(q-1)
PiB == F!FMul(C1, C1)
LoopBitsT == F!NatBits(6 * T + 2)
MA == INSTANCE MillerAlgo WITH FAdd <- F!FAdd, FSub <- F!FSub, FMul <- F!FMul, FInv <- F!FInv, FZero <- 0, FOne <- 1,
                               A2 <- Add2, S2 <- Sub2, M2 <- Mul2, I2 <- Inv2, Z2 <- <<0, 0>>, O2 <- <<1, 0>>,
                               XMul <- X1!Mul, XInv <- X1!Inv, XOne <- X1!One,
                               Half <- Half, Pi1 <- PiA, Pi2 <- PiB,
                               LoopDigits <- Tail(LoopBitsT), LoopBits <- LoopBitsT
VARIABLES ma, mb, mres
MInit == ma \in 1..3 /\ mb \in 1..2 /\ mres = <<>> /\ a = 0 /\ b = 0 /\ c = 5 /\ res = <<>>
Pm == E1!Mul(F!NatBits(ma), P1)
Qm == E2!Mul(F!NatBits(mb), P2)
QJ == << Qm[1], Qm[2], <<1, 0>> >>
FE(f) == X1!Pow(f, FinalBitsC)
MNext == mres = <<>> /\ UNCHANGED << ma, mb, a, b, c, res >>
         /\ mres' = LET want == PR!Pair(Pm, Qm)
                    IN << FE(MA!MillerG2(QJ, Pm)) = want, FE(MA!MillerPrepared(MA!Prepare(QJ), Pm)) = want, want # X1!One >>
MillerOK == mres # <<>> => mres = << TRUE, TRUE, TRUE >>
=============================================================================
