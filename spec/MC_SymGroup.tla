---- MODULE MC_SymGroup ----
EXTENDS SymGroup
MCScalars == {0, 1, 2, -1}
====
