------------------------------- MODULE IntField -------------------------------
(* Prime field F_P on native TLC integers, P < 2^31.  No Java, no BigNat.      *)
LOCAL INSTANCE Naturals
LOCAL INSTANCE Sequences
LOCAL INSTANCE SequencesExt
CONSTANT P
FZero == 0
FOne == 1
FFromNat(n) == n % P
FAdd(a, b) == IF a >= P - b THEN a - (P - b) ELSE a + b          \* no intermediate above 2^31
FSub(a, b) == IF a >= b THEN a - b ELSE a + (P - b)
FNeg(a) == IF a = 0 THEN 0 ELSE P - a
\* a*b mod P without overflow: direct when P^2 fits, otherwise by 8-bit windows of b (a*256 < 2^31 needs a < 2^23)
RECURSIVE MulBits(_, _)
MulBits(a, b) == IF b = 0 THEN 0
                 ELSE LET h == MulBits(a, b \div 2) d == FAdd(h, h) IN IF b % 2 = 1 THEN FAdd(d, a) ELSE d
FMul(a, b) == IF P <= 46340 THEN (a * b) % P ELSE MulBits(a, b)
FSqr(a) == FMul(a, a)
\* exponent as bits, most significant first
FPow(a, bits) == FoldLeft(LAMBDA st, bit : << IF bit = 1 THEN FMul(FSqr(st[1]), st[2]) ELSE FSqr(st[1]), st[2] >>,
                          << 1, a >>, bits)[1]
RECURSIVE NatBits(_)
NatBits(n) == IF n = 0 THEN <<>> ELSE Append(NatBits(n \div 2), n % 2)
FInv(a) == FPow(a, NatBits(P - 2))
FIsOdd(a) == a % 2 = 1
FDot(as, bs) == FoldLeft(LAMBDA acc, i : FAdd(acc, FMul(as[i], bs[i])), 0, [i \in 1..Len(as) |-> i])
=============================================================================
