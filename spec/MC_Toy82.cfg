INIT Init
NEXT Next
INVARIANT AllOK
CHECK_DEADLOCK FALSE
