------------------------------- MODULE BigField -------------------------------
(* Prime field F_P on BigNat values (byte tuples, canonical: 0 <= a < P).      *)
LOCAL INSTANCE Naturals
LOCAL INSTANCE Sequences
LOCAL INSTANCE BigNat
CONSTANT P
FZero == <<>>
FOne == <<1>>
FFromNat(n) == BMod(BFromNat(n), P)
FAdd(a, b) == BAddMod(a, b, P)
FSub(a, b) == BSubMod(a, b, P)
FNeg(a) == IF a = <<>> THEN a ELSE BSub(P, a)
FMul(a, b) == BMulMod(a, b, P)
FSqr(a) == FMul(a, a)
\* a^e, e a BigNat
FPowN(a, e) == BModPow(a, e, P)
FInv(a) == BModInvPrime(a, P)                    \* a # 0
FIsOdd(a) == BIsOdd(a)
FDot(as, bs) == BDot(as, bs, P)
\* Euler criterion (P an odd prime)
FIsQR(a) == a = <<>> \/ BModPow(a, BDiv(BSub(P, <<1>>), <<2>>), P) = <<1>>
=============================================================================
