------------------------------- MODULE SymPair -------------------------------
(* Small-scope symbolic machine for the pairing layer (C01, C03).  State:     *)
(*   p = <<k, tag>>   a G1 register (discrete logarithm, representation tag)  *)
(*   q = <<k, tag>>   a G2 register                                           *)
(*   h                None (= 1000) or the logarithm captured by G2Prepared::from(q) *)
(*   g                None or the logarithm (w.r.t. e(P1,P2)) of a Gt value         *)
(* TLC explores ALL interleavings of mutations of p and q, Prepare, pairing    *)
(* through the three entry points and through the prepared value (and a clone  *)
(* of it), and Gt arithmetic, within |k| <= K, |g| <= KG.  The specification   *)
(* says: every entry point yields g = p.k * q.k whatever the tags; a prepared  *)
(* pairing yields p.k * h, where h is the value captured at Prepare, whatever  *)
(* happened to q since.  Every transition is printed as one JSON line and is   *)
(* replayed on the real library (constructively and by a walk with real        *)
(* histories).                                                                 *)
EXTENDS Integers, Sequences, TLC, Json, FiniteSets
CONSTANTS K, KG, Scalars
None == 1000          \* "no value": an integer outside every range (TLC cannot compare integers with strings)
TagsFor(k) == IF k = 0 THEN {"Z0", "ZN"} ELSE {"A", "J"}
VARIABLES p, q, h, g
vars == <<p, q, h, g>>
St == [p |-> p, q |-> q, h |-> h, g |-> g]
InK(k) == k >= -K /\ k <= K
InG(k) == k >= -KG /\ k <= KG
Emit(act, args, post) == PrintT(<<"T", ToJson([pre |-> St, act |-> act, args |-> args, post |-> post])>>)
Post == [p |-> p', q |-> q', h |-> h', g |-> g']
Init == p = <<1, "A">> /\ q = <<1, "A">> /\ h = None /\ g = None
\* ---- mutations of the G1 / G2 registers (which = "p" or "q"); result tags are nondeterministic
SetP(k) == \E t \in TagsFor(k) : p' = <<k, t>>
SetQ(k) == \E t \in TagsFor(k) : q' = <<k, t>>
Mut(which, k) == IF which = "p" THEN SetP(k) /\ UNCHANGED q ELSE SetQ(k) /\ UNCHANGED p
Cur(which) == IF which = "p" THEN p[1] ELSE q[1]
GenOf(which) == (IF which = "p" THEN p' = <<1, "A">> /\ UNCHANGED q ELSE q' = <<1, "A">> /\ UNCHANGED p)
                /\ UNCHANGED <<h, g>> /\ Emit("gen", <<which>>, Post)
ZeroOf(which) == (IF which = "p" THEN p' = <<0, "Z0">> /\ UNCHANGED q ELSE q' = <<0, "Z0">> /\ UNCHANGED p)
                 /\ UNCHANGED <<h, g>> /\ Emit("zero", <<which>>, Post)
AddGen(which) == InK(Cur(which) + 1) /\ Mut(which, Cur(which) + 1) /\ UNCHANGED <<h, g>> /\ Emit("addgen", <<which>>, Post)
SubGen(which) == InK(Cur(which) - 1) /\ Mut(which, Cur(which) - 1) /\ UNCHANGED <<h, g>> /\ Emit("subgen", <<which>>, Post)
NegOf(which) == Mut(which, -Cur(which)) /\ UNCHANGED <<h, g>> /\ Emit("neg", <<which>>, Post)
MulOf(which, s) == InK(Cur(which) * s) /\ Mut(which, Cur(which) * s) /\ UNCHANGED <<h, g>> /\ Emit("mul", <<which, s>>, Post)
SelfSub(which) == Mut(which, 0) /\ UNCHANGED <<h, g>> /\ Emit("selfsub", <<which>>, Post)          \* X - X: an identity, usually (x, y, 0)
Rescale(which) == Mut(which, Cur(which)) /\ UNCHANGED <<h, g>> /\ Emit("rescale", <<which>>, Post)
Normalize(which) == (IF which = "p" THEN p' = <<p[1], IF p[1] = 0 THEN p[2] ELSE "A">> /\ UNCHANGED q
                     ELSE q' = <<q[1], IF q[1] = 0 THEN q[2] ELSE "A">> /\ UNCHANGED p)
                    /\ UNCHANGED <<h, g>> /\ Emit("normalize", <<which>>, Post)
\* ---- pairings
PairBy(v) == InG(p[1] * q[1]) /\ g' = p[1] * q[1] /\ UNCHANGED <<p, q, h>> /\ Emit("pair", <<v>>, Post)
Prepare == h' = q[1] /\ UNCHANGED <<p, q, g>> /\ Emit("prepare", <<>>, Post)
PrepPair(viaClone) == h # None /\ InG(p[1] * h) /\ g' = p[1] * h /\ UNCHANGED <<p, q, h>> /\ Emit("preppair", <<viaClone>>, Post)
\* ---- Gt arithmetic on the single Gt register
GtSquare == g # None /\ InG(2 * g) /\ g' = 2 * g /\ UNCHANGED <<p, q, h>> /\ Emit("gtsquare", <<>>, Post)
GtInv == g # None /\ g' = -g /\ UNCHANGED <<p, q, h>> /\ Emit("gtinv", <<>>, Post)
GtPow(s) == g # None /\ InG(g * s) /\ g' = g * s /\ UNCHANGED <<p, q, h>> /\ Emit("gtpow", <<s>>, Post)
GtMulPair == g # None /\ InG(g + p[1] * q[1]) /\ g' = g + p[1] * q[1] /\ UNCHANGED <<p, q, h>> /\ Emit("gtmulpair", <<>>, Post)
Next == \/ \E w \in {"p", "q"} : GenOf(w) \/ ZeroOf(w) \/ AddGen(w) \/ SubGen(w) \/ NegOf(w) \/ SelfSub(w) \/ Rescale(w) \/ Normalize(w)
        \/ \E w \in {"p", "q"}, s \in Scalars : MulOf(w, s)
        \/ \E v \in {"pairing", "fast", "prepared"} : PairBy(v)
        \/ Prepare \/ PrepPair(FALSE) \/ PrepPair(TRUE)
        \/ GtSquare \/ GtInv \/ GtMulPair \/ \E s \in Scalars : GtPow(s)
TypeOK == /\ InK(p[1]) /\ p[2] \in TagsFor(p[1]) /\ InK(q[1]) /\ q[2] \in TagsFor(q[1])
          /\ (h = None \/ InK(h)) /\ (g = None \/ InG(g))
=============================================================================
