------------------------------ MODULE MC_Toy82 ------------------------------
(* The SAME generic Level-A modules (Ext12, Curve, Pairing) that are evaluated at SM9 size on BigNat   *)
(* (SM9.tla / SM9Pair.tla) instantiated on a toy BN curve, t = 82: same tower shape as SM9            *)
(* (beta = -2, xi = u, q = 5 mod 8, twist y^2 = x^3 + b u), 31-bit field, NATIVE TLC integers, NO     *)
(* Java override in any field operation.  TLC checks bilinearity in both arguments on a grid,         *)
(* non-degeneracy, the orders of the generators and "linear Frobenius = q-th power".  This validates   *)
(* the pairing specification itself independently of java.math.BigInteger.                            *)
(* (BigNat is used only to write the 370-bit final exponent as a bit string.)                         *)
EXTENDS Naturals, Sequences, SequencesExt, TLC
BN == INSTANCE BigNat
T == 82
Q == 36 * T * T * T * T + 36 * T * T * T + 24 * T * T + 6 * T + 1
R == 36 * T * T * T * T + 36 * T * T * T + 18 * T * T + 6 * T + 1
ASSUME Q = 1647649453 /\ R = 1647609109 /\ Q % 8 = 5 /\ (Q - 1) % 12 = 0
F == INSTANCE IntField WITH P <- Q
Qb == BN!BFromNat(Q)
Rb == BN!BFromNat(R)
RECURSIVE BPowNat(_, _)
BPowNat(a, n) == IF n = 0 THEN <<1>> ELSE BN!BMul(a, BPowNat(a, n - 1))
FinalBitsC == BN!BBitsMSB(BN!BDiv(BN!BSub(BPowNat(Qb, 12), <<1>>), Rb))
\* root-level constants: evaluated once by TLC
C1 == F!FPow(Q - 2, F!NatBits((Q - 1) \div 12))
X0 == INSTANCE Ext12 WITH FAdd <- F!FAdd, FSub <- F!FSub, FMul <- F!FMul, FInv <- F!FInv, FDot <- F!FDot,
                          FZero <- 0, FOne <- 1, Beta <- Q - 2, FrobTab <- <<>>
FrobTabC == X0!MkFrobTab(C1)
X1 == INSTANCE Ext12 WITH FAdd <- F!FAdd, FSub <- F!FSub, FMul <- F!FMul, FInv <- F!FInv, FDot <- F!FDot,
                          FZero <- 0, FOne <- 1, Beta <- Q - 2, FrobTab <- FrobTabC
WinvC == X1!Inv(X1!W)
W2invC == X1!Mul(WinvC, WinvC)
W3invC == X1!Mul(W2invC, WinvC)
LoopBitsC == F!NatBits(6 * T + 2)
PR == INSTANCE Pairing WITH FAdd <- F!FAdd, FSub <- F!FSub, FMul <- F!FMul, FInv <- F!FInv, FDot <- F!FDot,
                            FZero <- 0, FOne <- 1, Beta <- Q - 2, FrobTab <- FrobTabC, W2inv <- W2invC, W3inv <- W3invC,
                            Bcoef <- 11, LoopBits <- LoopBitsC, FinalBits <- FinalBitsC
E1 == INSTANCE Curve WITH FAdd <- F!FAdd, FSub <- F!FSub, FMul <- F!FMul, FInv <- F!FInv, FZero <- 0, B <- 11
\* Fq2 and the twist y^2 = x^3 + 11u
Add2(x, y) == << F!FAdd(x[1], y[1]), F!FAdd(x[2], y[2]) >>
Sub2(x, y) == << F!FSub(x[1], y[1]), F!FSub(x[2], y[2]) >>
Mul2(x, y) == << F!FSub(F!FMul(x[1], y[1]), F!FMul(2, F!FMul(x[2], y[2]))), F!FAdd(F!FMul(x[1], y[2]), F!FMul(x[2], y[1])) >>
Inv2(x) == LET n == F!FInv(F!FAdd(F!FMul(x[1], x[1]), F!FMul(2, F!FMul(x[2], x[2])))) IN << F!FMul(x[1], n), F!FNeg(F!FMul(x[2], n)) >>
E2 == INSTANCE Curve WITH FAdd <- Add2, FSub <- Sub2, FMul <- Mul2, FInv <- Inv2, FZero <- <<0, 0>>, B <- <<0, 11>>
P1 == << 1, 999897703 >>
P2 == << <<1086703920, 1252236198>>, <<273097433, 569635914>> >>
G == PR!Pair(P1, P2)
\* Heavy evaluation is placed in Next (worker threads); initial states and their invariants are evaluated by the
\* main thread alone.
VARIABLES a, b, c, res
Init == a \in 0..2 /\ b \in 0..2 /\ c \in {5} /\ res = <<>>
aP == E1!Mul(F!NatBits(a), P1)
bQ == E2!Mul(F!NatBits(b), P2)
cP == E1!Mul(F!NatBits(c), P1)
Bilinear == PR!Pair(aP, bQ) = PR!X!Pow(G, F!NatBits(a * b))
AddLeft == PR!Pair(E1!Add(aP, cP), bQ) = PR!X!Mul(PR!Pair(aP, bQ), PR!Pair(cP, bQ))
NonDegenerate == G # PR!X!One /\ PR!X!Pow(G, F!NatBits(R)) = PR!X!One
OrderOK == E1!Mul(F!NatBits(R), P1) = E1!Inf /\ E2!Mul(F!NatBits(R), P2) = E2!Inf
FrobOK == PR!X!Frob(G, 1) = PR!X!Pow(G, F!NatBits(Q))
Next == res = <<>> /\ res' = << Bilinear, AddLeft, (a + b = 0) => (NonDegenerate /\ OrderOK /\ FrobOK) >> /\ UNCHANGED <<a, b, c>>
AllOK == res # <<>> => res = << TRUE, TRUE, TRUE >>
=============================================================================
