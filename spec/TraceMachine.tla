----------------------------- MODULE TraceMachine -----------------------------
(* The register machine (DESIGN 1.2 / 1.4): the stateful part of the trace     *)
(* specification.  State = a file of abstract values that the SPECIFICATION    *)
(* maintains: a register holds                                                  *)
(*    [t |-> "fr" | "fq" | "fq2", p |-> <<>>, k |-> value]            a field element *)
(*    [t |-> "g1" | "g2", p |-> affine point or Inf, k |-> discrete logarithm]         *)
(*    [t |-> "gt", p |-> element of F_q^12, k |-> discrete logarithm w.r.t. e(P1,P2)]  *)
(*    [t |-> "prep", p |-> the G2 point captured at G2Prepared::from, k |-> its dlog]  *)
(* Each recorded call names its destination and source REGISTERS; the new      *)
(* abstract value is computed from the abstract values the specification holds *)
(* (never from what the code printed), and the observables logged by the code  *)
(* (Jacobian triple, encoding, is_zero, the row of == against every live       *)
(* register of the same type, pairing bytes) must be exactly those predicted   *)
(* from the abstract state.  This is where a value that is wrong only in a     *)
(* LATER operation, or only for an inherited representative, is caught.        *)
EXTENDS TracePair
NoReg == [t |-> "none", p |-> <<>>, k |-> <<>>]
GT2(G) == IF G = "G1" THEN "g1" ELSE "g2"
GReg(G, P, k) == [t |-> GT2(G), p |-> P, k |-> k]
Has(rg, i, t) == i \in 1..Len(rg) /\ rg[i].t = t
\* ---------------------------------------------------------------- observables of a group register
\* e.jac, e.isz, e.enc (option of the raw encoding), e.eqj / e.eqv (row of ==), e.fresh (sampled fresh computation)
GObs(e, rg, G) ==
    LET me == rg[e.d]
    IN /\ JacOK(G, e.jac) /\ AbsJ(G, e.jac) = me.p
       /\ e.isz = (me.p = Inf)
       /\ (IF me.p = Inf THEN IsNone(e.enc) ELSE IsSome(e.enc) /\ e.enc.v = Enc(G, me.p, "raw"))
       /\ Len(e.eqj) = Len(e.eqv)
       /\ \A i \in 1..Len(e.eqj) : /\ Has(rg, e.eqj[i], GT2(G))
                                   /\ e.eqv[i] = (rg[e.eqj[i]].k = me.k)            \* == is predicted by the discrete logarithms alone
                                   /\ (rg[e.eqj[i]].p = me.p) = (rg[e.eqj[i]].k = me.k)
       /\ (IsSome(e.fresh) =>                                                         \* a freshly computed k*generator is indistinguishable
              /\ FromBE(e.fresh.v.k) = me.k /\ e.fresh.v.eq = TRUE /\ e.fresh.v.enceq = TRUE
              /\ me.p = GMul(G, me.k, GGen(G)))
GtObs(e, rg) ==
    LET me == rg[e.d]
    IN /\ GtCanon(e.out) /\ e.out = Ser12(me.p)
       /\ Len(e.eqj) = Len(e.eqv)
       /\ \A i \in 1..Len(e.eqj) : Has(rg, e.eqj[i], "gt") /\ e.eqv[i] = (rg[e.eqj[i]].k = me.k)
                                   /\ (rg[e.eqj[i]].p = me.p) = (rg[e.eqj[i]].k = me.k)
       /\ (e.anchor => me.p = GtPowN(GT, me.k))
\* ---------------------------------------------------------------- field registers (C07)
TMod(Ty) == IF Ty = "Fr" THEN R ELSE Q
TTag(Ty) == CASE Ty = "Fr" -> "fr" [] Ty = "Fq" -> "fq" [] Ty = "Fq2" -> "fq2"
FReg(Ty, v) == [t |-> TTag(Ty), p |-> <<>>, k |-> v]
FEnc(Ty, v) == IF Ty = "Fq2" THEN EncFq2(v) ELSE EncFq(v)
FIsZero(Ty, v) == IF Ty = "Fq2" THEN v = E2!Zero ELSE v = <<>>
FObs(e, rg) ==
    LET me == rg[e.d]
    IN /\ (IF e.T = "Fq2" THEN Canon2(e.out) ELSE Canon(e.T, e.out))          \* fully reduced
       /\ e.out = FEnc(e.T, me.k)                                              \* and the value the specification computed
       /\ e.isz = FIsZero(e.T, me.k)
       /\ Len(e.eqj) = Len(e.eqv)
       /\ \A i \in 1..Len(e.eqj) : Has(rg, e.eqj[i], TTag(e.T)) /\ e.eqv[i] = (rg[e.eqj[i]].k = me.k)
\* value produced by a field-machine event, from the abstract operands; <<-2>> when the event produces nothing
NoVal == <<-2>>
Arith(Ty, fn, a, b) ==
    IF Ty = "Fq2"
    THEN CASE fn = "add" -> E2!Add(a, b) [] fn = "sub" -> E2!Sub(a, b) [] fn = "mul" -> E2!Mul(a, b)
    ELSE CASE fn = "add" -> BAddMod(a, b, TMod(Ty)) [] fn = "sub" -> BSubMod(a, b, TMod(Ty)) [] fn = "mul" -> BMulMod(a, b, TMod(Ty))
FNegV(Ty, a) == IF Ty = "Fq2" THEN E2!Neg(a) ELSE (IF a = <<>> THEN a ELSE BSub(TMod(Ty), a))
\* values whose production is not a function of the operands (random, sqrt sign, out-of-range set_bit) are taken
\* from the log once they satisfy the relation the property states
FVal(e, rg) ==
    LET Ty == e.T  fn == e.fn  p == TMod(Ty)
        A == IF "a" \in DOMAIN e THEN rg[e.a].k ELSE <<>>
        Bv == IF "b" \in DOMAIN e THEN rg[e.b].k ELSE <<>>
        hasOut == e.res = "some"                                     \* out / isz / eq row are logged only when the call produced a value
        logged == IF Ty = "Fq2" THEN DecFq2(e.out) ELSE FromBE(e.out)
    IN CASE fn = "zero" -> IF Ty = "Fq2" THEN E2!Zero ELSE <<>>
         [] fn = "one" -> IF Ty = "Fq2" THEN E2!One ELSE <<1>>
         [] fn = "copy" -> A
         [] fn = "from_slice" -> FromSliceSpec(p, e.in)
         [] fn = "interpret" -> BMod(FromBE(e.in), p)
         [] fn = "from_str" -> FromStrSpec(p, e.in)
         [] fn = "from_hash" -> FromHashSpec(e.in)
         [] fn = "random" -> IF hasOut /\ Canon(Ty, e.out) THEN logged ELSE NoVal
         [] fn \in {"add", "sub", "mul"} -> Arith(Ty, fn, A, Bv)
         [] fn = "neg" -> FNegV(Ty, A)
         [] fn = "inv" -> IF Ty = "Fq2" THEN (IF A = E2!Zero THEN None ELSE E2!Inv(A))
                          ELSE (IF A = <<>> THEN None ELSE BModInvPrime(A, p))
         [] fn = "pow" -> BModPow(A, Bv, p)
         [] fn = "sqrt" -> IF Ty = "Fq2"
                           THEN (IF ~E2!IsSquare(A) THEN None ELSE IF hasOut /\ Canon2(e.out) /\ E2!Sqr(logged) = A THEN logged ELSE NoVal)
                           ELSE (IF ~FQ!FIsQR(A) THEN None ELSE IF hasOut /\ Canon("Fq", e.out) /\ FQ!FSqr(logged) = A THEN logged ELSE NoVal)
         [] fn = "set_bit" -> IF e.i < 256 THEN SetBitSpec(A, e.i, e.to)
                              ELSE IF hasOut /\ (logged = A \/ (e.to /\ logged = BMod(BAdd(A, Pow2N(e.i)), R))) THEN logged ELSE NoVal
         [] fn = "real" -> A[1]
         [] fn = "imaginary" -> A[2]
         [] fn = "new" -> << A, Bv >>
FSrcOK(e, rg) ==
    LET Ty == e.T  fn == e.fn
        src == IF fn \in {"real", "imaginary"} THEN "fq2" ELSE IF fn = "new" THEN "fq" ELSE TTag(Ty)
    IN /\ ("a" \in DOMAIN e => Has(rg, e.a, src))
       /\ ("b" \in DOMAIN e => Has(rg, e.b, src))
\* e.res = "some" when the call produced a value (then out/isz/eq are logged), "none" when it returned None / Err
MFStep(e, rg) ==
    IF ~FSrcOK(e, rg) THEN [ok |-> FALSE, reg |-> rg]
    ELSE LET v == FVal(e, rg)
         IN IF v = None THEN [ok |-> e.res = "none", reg |-> rg]
            ELSE IF v = NoVal \/ e.res # "some" THEN [ok |-> FALSE, reg |-> rg]
            ELSE LET rg2 == [rg EXCEPT ![e.d] = FReg(e.T, v)] IN [ok |-> FObs(e, rg2), reg |-> rg2]
\* ---------------------------------------------------------------- group / pairing machine (C16, C03, C01)
RAdd(a, b) == BAddMod(a, b, R)
RSub(a, b) == BSubMod(a, b, R)
RMul(a, b) == BMulMod(a, b, R)
RNeg(a) == IF a = <<>> THEN a ELSE BSub(R, a)
MGStep(e, rg) ==
    LET G == e.G  ty == GT2(e.G)
        srcOK == /\ ("a" \in DOMAIN e => Has(rg, e.a, ty))
                 /\ ("b" \in DOMAIN e => Has(rg, e.b, ty))
                 /\ ("s" \in DOMAIN e => Has(rg, e.s, "fr"))
        new == CASE e.op = "m.ggen" -> GReg(G, GGen(G), <<1>>)
                 [] e.op = "m.gzero" -> GReg(G, Inf, <<>>)
                 [] e.op = "m.gadd" -> GReg(G, GAdd(G, rg[e.a].p, rg[e.b].p), RAdd(rg[e.a].k, rg[e.b].k))
                 [] e.op = "m.gsub" -> GReg(G, GAdd(G, rg[e.a].p, GNeg(G, rg[e.b].p)), RSub(rg[e.a].k, rg[e.b].k))
                 [] e.op = "m.gneg" -> GReg(G, GNeg(G, rg[e.a].p), RNeg(rg[e.a].k))
                 [] e.op = "m.gmul" -> GReg(G, GMul(G, rg[e.s].k, rg[e.a].p), RMul(rg[e.a].k, rg[e.s].k))
                 [] e.op \in {"m.gnorm", "m.gaffrt", "m.gcodec", "m.gcopy", "m.grescale"} -> GReg(G, rg[e.a].p, rg[e.a].k)
    IN IF ~srcOK THEN [ok |-> FALSE, reg |-> rg]
       ELSE LET rg2 == [rg EXCEPT ![e.d] = new]
            IN [ok |-> /\ GObs(e, rg2, G)
                       /\ (e.op = "m.gnorm" /\ new.p # Inf => JZ(G, e.jac) = COne(G))
                       /\ (e.op \in {"m.gaffrt", "m.gcodec"} => e.rtok = (new.p # Inf)),
                reg |-> rg2]
MPStep(e, rg) ==
    CASE e.op = "m.pair" ->
           IF ~(Has(rg, e.p, "g1") /\ Has(rg, e.q, "g2") /\ e.v \in {"pairing", "fast", "prepared"}) THEN [ok |-> FALSE, reg |-> rg]
           ELSE LET k == RMul(rg[e.p].k, rg[e.q].k)
                    rg2 == [rg EXCEPT ![e.d] = [t |-> "gt", p |-> GtPowN(GT, k), k |-> k]]
                IN [ok |-> GtObs(e, rg2) /\ (e.full => rg2[e.d].p = Pair(rg[e.p].p, rg[e.q].p)), reg |-> rg2]
      [] e.op = "m.prep" ->
           IF ~Has(rg, e.q, "g2") THEN [ok |-> FALSE, reg |-> rg]
           ELSE [ok |-> TRUE, reg |-> [rg EXCEPT ![e.d] = [t |-> "prep", p |-> rg[e.q].p, k |-> rg[e.q].k]]]
      [] e.op = "m.prepclone" ->
           IF ~Has(rg, e.h, "prep") THEN [ok |-> FALSE, reg |-> rg]
           ELSE [ok |-> TRUE, reg |-> [rg EXCEPT ![e.d] = rg[e.h]]]
      [] e.op = "m.preppair" ->       \* depends only on the value captured at m.prep, whatever happened to the source since
           IF ~(Has(rg, e.h, "prep") /\ Has(rg, e.p, "g1")) THEN [ok |-> FALSE, reg |-> rg]
           ELSE LET k == RMul(rg[e.p].k, rg[e.h].k)
                    rg2 == [rg EXCEPT ![e.d] = [t |-> "gt", p |-> GtPowN(GT, k), k |-> k]]
                IN [ok |-> GtObs(e, rg2), reg |-> rg2]
      [] e.op = "m.gtone" -> LET rg2 == [rg EXCEPT ![e.d] = [t |-> "gt", p |-> X!One, k |-> <<>>]] IN [ok |-> GtObs(e, rg2), reg |-> rg2]
      [] e.op = "m.gtmul" ->
           IF ~(Has(rg, e.a, "gt") /\ Has(rg, e.b, "gt")) THEN [ok |-> FALSE, reg |-> rg]
           ELSE LET rg2 == [rg EXCEPT ![e.d] = [t |-> "gt", p |-> X!Mul(rg[e.a].p, rg[e.b].p), k |-> RAdd(rg[e.a].k, rg[e.b].k)]]
                IN [ok |-> GtObs(e, rg2), reg |-> rg2]
      [] e.op = "m.gtpow" ->
           IF ~(Has(rg, e.a, "gt") /\ Has(rg, e.s, "fr")) THEN [ok |-> FALSE, reg |-> rg]
           ELSE LET rg2 == [rg EXCEPT ![e.d] = [t |-> "gt", p |-> GtPowN(rg[e.a].p, rg[e.s].k), k |-> RMul(rg[e.a].k, rg[e.s].k)]]
                IN [ok |-> GtObs(e, rg2), reg |-> rg2]
      [] e.op = "m.gtinv" ->
           IF ~Has(rg, e.a, "gt") THEN [ok |-> FALSE, reg |-> rg]
           ELSE LET rg2 == [rg EXCEPT ![e.d] = [t |-> "gt", p |-> X!Inv(rg[e.a].p), k |-> RNeg(rg[e.a].k)]]
                IN [ok |-> GtObs(e, rg2), reg |-> rg2]
MachineOps == {"m.init", "mf", "m.ggen", "m.gzero", "m.gadd", "m.gsub", "m.gneg", "m.gmul", "m.gnorm", "m.gaffrt", "m.gcodec",
               "m.gcopy", "m.grescale", "m.pair", "m.prep", "m.prepclone", "m.preppair", "m.gtone", "m.gtmul", "m.gtpow", "m.gtinv"}
MStep(e, rg) ==
    CASE e.op = "m.init" -> [ok |-> e.n \in 1..64, reg |-> [i \in 1..e.n |-> NoReg]]
      [] e.op = "mf" -> MFStep(e, rg)
      [] e.op \in {"m.ggen", "m.gzero", "m.gadd", "m.gsub", "m.gneg", "m.gmul", "m.gnorm", "m.gaffrt", "m.gcodec", "m.gcopy", "m.grescale"} -> MGStep(e, rg)
      [] OTHER -> MPStep(e, rg)
=============================================================================
