----------------------------- MODULE MontArith -----------------------------
(* Unbounded companion of the Level-B model ImplMont: the word-level case       *)
(* analysis of src/u256.rs (add, sub, mul2, neg, div2 and the final conditional  *)
(* subtraction of the Montgomery routines), stated over the INTEGERS for EVERY   *)
(* radix R and EVERY modulus p with p < R < 2p (SM9: R = 2^256, q/R = 0.712,     *)
(* r/R = 0.712) and proved with TLAPS (linear integer arithmetic, SMT).          *)
(* "Wrap" is arithmetic modulo R on the range the code can produce.              *)
EXTENDS Integers, TLAPS
CONSTANTS R, H, p
ASSUME Params == R \in Nat /\ H \in Nat /\ R = 2 * H /\ p \in Nat /\ 0 < p /\ p < R /\ R < 2 * p
Fp == 0 .. (p - 1)
Wrap(x) == IF x >= R THEN x - R ELSE IF x < 0 THEN x + R ELSE x
\* self.0.add_with_carry(other); subtract_modulus_with_carry(modulo, carry)
AddCode(a, b) == LET s == a + b
                     lo == IF s >= R THEN s - R ELSE s
                 IN IF s >= R \/ lo >= p THEN Wrap(lo - p) ELSE lo
\* if self < other { self += modulo (wrapping) }; self -= other (wrapping)
SubCode(a, b) == LET a1 == IF a < b THEN Wrap(a + p) ELSE a IN Wrap(a1 - b)
\* if !self.is_zero() { self = modulo - self }
NegCode(a) == IF a = 0 THEN 0 ELSE p - a
\* final step of mul / square / sum_of_products (one carry): value V = hi * R + lo < 2p, result lo - p (wrapping) if hi = 1 or lo >= p
CondSub(V) == LET hi == IF V >= R THEN 1 ELSE 0
                  lo == IF V >= R THEN V - R ELSE V
              IN IF hi = 1 \/ lo >= p THEN Wrap(lo - p) ELSE lo

\* div2: if odd add the modulus (carry possible), halve, put the carry back as the top bit, conditional subtraction.
\* The halving is described by its defining property: h is the half of the even number lo.
Div2Spec(a, res) == \E k \in 0 .. 1, h \in Int :
                      /\ k = a - 2 * ((a + 0) \div 2) \/ TRUE
                      /\ LET s == IF k = 1 THEN a + p ELSE a
                             carry == s >= R
                             lo == IF carry THEN s - R ELSE s
                             top == IF carry THEN h + H ELSE h
                         IN /\ lo = 2 * h
                            /\ res = (IF carry /\ top >= p THEN top - p ELSE top)
\* add_carry: `while !self.sub_with_borrow(modulo) {}` on r in [0, R): subtract p until a borrow occurs, keep the wrapped value
AddCarryCode(r) == IF r < p THEN r + R - p ELSE r + R - 2 * p
FinalSub(r) == IF r >= p THEN r - p ELSE r

THEOREM AddCorrect == \A a, b \in Fp : AddCode(a, b) \in Fp /\ (AddCode(a, b) = a + b \/ AddCode(a, b) = a + b - p)
  BY Params, SMT DEF Fp, AddCode, Wrap

THEOREM SubCorrect == \A a, b \in Fp : SubCode(a, b) \in Fp /\ (SubCode(a, b) = a - b \/ SubCode(a, b) = a - b + p)
  BY Params, SMT DEF Fp, SubCode, Wrap

THEOREM NegCorrect == \A a \in Fp : NegCode(a) \in Fp /\ (NegCode(a) = 0 /\ a = 0 \/ NegCode(a) = p - a)
  BY Params, SMT DEF Fp, NegCode

THEOREM Mul2Correct == \A a \in Fp : AddCode(a, a) \in Fp /\ (AddCode(a, a) = 2 * a \/ AddCode(a, a) = 2 * a - p)
  BY AddCorrect, Params, SMT DEF Fp

\* the Montgomery routines reach V < 2p before the conditional subtraction (V = (a b + k p)/R < (p^2 + R p)/R < 2p)
THEOREM CondSubCorrect == \A V \in 0 .. (2 * p - 1) : CondSub(V) \in Fp /\ (CondSub(V) = V \/ CondSub(V) = V - p)
  BY Params, SMT DEF Fp, CondSub, Wrap

\* halving: whenever lo = 2h as in the code, the result is in range and twice the result is a or a + p
THEOREM Div2Correct == \A a \in Fp, res \in Int : Div2Spec(a, res) => res \in Fp /\ (2 * res = a \/ 2 * res = a + p)
  BY Params, SMT DEF Fp, Div2Spec

\* the carry fold of sum_of_products: u4 in {0, 1, 2} extra limbs folded by add_carry, then one conditional subtraction
LEMMA FinalSubOK == \A r \in 0 .. (R - 1) : FinalSub(r) \in Fp /\ (FinalSub(r) = r \/ FinalSub(r) = r - p)
  BY Params, SMT DEF Fp, FinalSub
LEMMA AddCarryOK == \A r \in 0 .. (R - 1) : AddCarryCode(r) \in 0 .. (R - 1) /\ (AddCarryCode(r) = r + R - p \/ AddCarryCode(r) = r + R - 2 * p)
  BY Params, SMT DEF AddCarryCode
THEOREM FoldOne == \A r \in 0 .. (R - 1) :
                      /\ FinalSub(AddCarryCode(r)) \in Fp
                      /\ (\/ FinalSub(AddCarryCode(r)) = r + R - p \/ FinalSub(AddCarryCode(r)) = r + R - 2 * p
                          \/ FinalSub(AddCarryCode(r)) = r + R - 3 * p)
  <1> TAKE r \in 0 .. (R - 1)
  <1>1. AddCarryCode(r) \in 0 .. (R - 1) /\ (AddCarryCode(r) = r + R - p \/ AddCarryCode(r) = r + R - 2 * p)  BY AddCarryOK
  <1>2. FinalSub(AddCarryCode(r)) \in Fp /\ (FinalSub(AddCarryCode(r)) = AddCarryCode(r) \/ FinalSub(AddCarryCode(r)) = AddCarryCode(r) - p)  BY <1>1, FinalSubOK
  <1> QED BY <1>1, <1>2, Params, SMT
THEOREM FoldTwo == \A r \in 0 .. (R - 1) :
                      /\ FinalSub(AddCarryCode(AddCarryCode(r))) \in Fp
                      /\ (\/ FinalSub(AddCarryCode(AddCarryCode(r))) = r + 2 * R - 2 * p \/ FinalSub(AddCarryCode(AddCarryCode(r))) = r + 2 * R - 3 * p
                          \/ FinalSub(AddCarryCode(AddCarryCode(r))) = r + 2 * R - 4 * p \/ FinalSub(AddCarryCode(AddCarryCode(r))) = r + 2 * R - 5 * p)
  <1> TAKE r \in 0 .. (R - 1)
  <1>1. AddCarryCode(r) \in 0 .. (R - 1) /\ (AddCarryCode(r) = r + R - p \/ AddCarryCode(r) = r + R - 2 * p)  BY AddCarryOK
  <1>2. AddCarryCode(AddCarryCode(r)) \in 0 .. (R - 1)
        /\ (AddCarryCode(AddCarryCode(r)) = AddCarryCode(r) + R - p \/ AddCarryCode(AddCarryCode(r)) = AddCarryCode(r) + R - 2 * p)  BY <1>1, AddCarryOK
  <1>3. FinalSub(AddCarryCode(AddCarryCode(r))) \in Fp
        /\ (FinalSub(AddCarryCode(AddCarryCode(r))) = AddCarryCode(AddCarryCode(r)) \/ FinalSub(AddCarryCode(AddCarryCode(r))) = AddCarryCode(AddCarryCode(r)) - p)  BY <1>2, FinalSubOK
  <1> QED BY <1>1, <1>2, <1>3, Params, SMT
=============================================================================
