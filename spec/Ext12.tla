-------------------------------- MODULE Ext12 --------------------------------
(* F_{q^12} = F_q[w]/(w^12 - Beta) as 12-tuples (index i holds the coefficient *)
(* of w^(i-1)) over a prime field given by operators.  Textbook polynomial     *)
(* arithmetic; shares no formula with the tower code of the implementation.    *)
LOCAL INSTANCE Naturals
LOCAL INSTANCE Sequences
LOCAL INSTANCE SequencesExt
CONSTANTS FAdd(_, _), FSub(_, _), FMul(_, _), FInv(_), FDot(_, _), FZero, FOne,
          Beta,          \* w^12 = Beta
          FrobTab        \* FrobTab[k][i] = C^(k*(i-1)), C = Beta^((q-1)/12); precomputed by the root module with
                         \* MkFrobTab(C): TLC re-evaluates zero-arity definitions of an instantiated module at every
                         \* use, but evaluates those of the root module once
\* TLC keeps [i \in S |-> e] lazy and re-evaluates e at every application: always build evaluated tuples
T12(F(_)) == << F(1), F(2), F(3), F(4), F(5), F(6), F(7), F(8), F(9), F(10), F(11), F(12) >>
Zero == T12(LAMBDA i : FZero)
One  == T12(LAMBDA i : IF i = 1 THEN FOne ELSE FZero)
Emb(a) == T12(LAMBDA i : IF i = 1 THEN a ELSE FZero)
Emb2(x) == T12(LAMBDA i : IF i = 1 THEN x[1] ELSE IF i = 7 THEN x[2] ELSE FZero)     \* x[1] + x[2]*u, u = w^6
W == T12(LAMBDA i : IF i = 2 THEN FOne ELSE FZero)
Add(a, b) == T12(LAMBDA i : FAdd(a[i], b[i]))
Sub(a, b) == T12(LAMBDA i : FSub(a[i], b[i]))
Neg(a) == Sub(Zero, a)
Scale(a, s) == T12(LAMBDA i : FMul(a[i], s))
\* coefficient of w^k in a*b is <a, Row(b,k)>
Row(b, k) == T12(LAMBDA i : LET j == k - (i - 1) IN IF j >= 0 THEN b[j + 1] ELSE FMul(b[j + 13], Beta))
Mul(a, b) == T12(LAMBDA k : FDot(a, Row(b, k - 1)))
Sqr(a) == Mul(a, a)
\* a^e, e given as bits most significant first; the base travels in the accumulator (TLC arguments are lazy)
Pow(a, bits) == FoldLeft(LAMBDA st, bit : << IF bit = 1 THEN Mul(Sqr(st[1]), st[2]) ELSE Sqr(st[1]), st[2] >>,
                         << One, a >>, bits)[1]
\* Frobenius x -> x^(q^k): F_q-linear with w -> C^k * w, C = Beta^((q-1)/12) (C^12 = 1)
RECURSIVE CPowN(_, _)
CPowN(c, n) == IF n = 0 THEN FOne ELSE FMul(c, CPowN(c, n - 1))
MkFrobRow(c, k) == T12(LAMBDA i : CPowN(c, (k * (i - 1)) % 12))
MkFrobTab(c) == << MkFrobRow(c, 1), MkFrobRow(c, 2), MkFrobRow(c, 3), MkFrobRow(c, 4), MkFrobRow(c, 5), MkFrobRow(c, 6),
                   MkFrobRow(c, 7), MkFrobRow(c, 8), MkFrobRow(c, 9), MkFrobRow(c, 10), MkFrobRow(c, 11) >>
Frob(a, k) == T12(LAMBDA i : FMul(a[i], FrobTab[k][i]))
\* inverse through the norm to F_q: a^-1 = (prod_{k=1..11} a^(q^k)) / N(a), N(a) = a * prod in F_q
Inv(a) == LET st == FoldLeft(LAMBDA s, k : << Mul(s[1], Frob(s[2], k)), s[2] >>, << One, a >>,
                             << 1, 2, 3, 4, 5, 6, 7, 8, 9, 10, 11 >>)
              n == Mul(st[1], a)
          IN Scale(st[1], FInv(n[1]))
=============================================================================
