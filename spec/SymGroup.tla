------------------------------ MODULE SymGroup ------------------------------
(* Small-scope symbolic machine for one group (instantiated concretely for   *)
(* G1 and for G2 by the replayer).  A register holds a discrete logarithm k   *)
(* (an integer standing for k mod r; |k| <= K << r, so equality in Z is       *)
(* equality mod r) and a REPRESENTATION TAG:                                  *)
(*    Z0  identity (0,1,0)        ZN  identity written (x,y,0)                *)
(*    A   z = 1                   J   z # 1                                   *)
(* The tag of a RESULT is left nondeterministic (any tag consistent with k):  *)
(* the specification never predicts which representative the code returns,    *)
(* while every tag of every OPERAND is enumerated.  TLC explores the whole    *)
(* state graph and prints every transition as one JSON line; the replayer     *)
(* walks the graph with real library values (spec -> implementation).         *)
EXTENDS Integers, Sequences, TLC, Json, FiniteSets
CONSTANTS K,            \* bound on |k|
          NReg,         \* number of registers
          Scalars,      \* scalar alphabet (integers; -1 stands for r-1)
          WithRescale   \* include explicit rescaling through G::new (not part of C16's alphabet)
Regs == 1..NReg
Tags == {"Z0", "ZN", "A", "J"}
TagsFor(k) == IF k = 0 THEN {"Z0", "ZN"} ELSE {"A", "J"}
VARIABLES reg
vars == <<reg>>
Val(k, t) == <<k, t>>
InRange(k) == k >= -K /\ k <= K
Emit(act, args, post, obs) == PrintT(<<"T", ToJson([pre |-> reg, act |-> act, args |-> args, post |-> post, obs |-> obs])>>)
Set(d, k) == \E t \in TagsFor(k) : reg' = [reg EXCEPT ![d] = Val(k, t)]
NoObs == [none |-> TRUE]
Init == reg = [r \in Regs |-> Val(1, "A")]                    \* every register starts as the generator
Gen(d)  == reg' = [reg EXCEPT ![d] = Val(1, "A")] /\ Emit("gen", <<d>>, reg', NoObs)
Zero(d) == reg' = [reg EXCEPT ![d] = Val(0, "Z0")] /\ Emit("zero", <<d>>, reg', NoObs)
Add(d, a, b) == LET k == reg[a][1] + reg[b][1] IN InRange(k) /\ Set(d, k) /\ Emit("add", <<d, a, b>>, reg', NoObs)
Sub(d, a, b) == LET k == reg[a][1] - reg[b][1] IN InRange(k) /\ Set(d, k) /\ Emit("sub", <<d, a, b>>, reg', NoObs)
Neg(d, a) == Set(d, -reg[a][1]) /\ Emit("neg", <<d, a>>, reg', NoObs)
Mul(d, a, s) == LET k == reg[a][1] * s IN InRange(k) /\ Set(d, k) /\ Emit("mul", <<d, a, s>>, reg', NoObs)
\* normalize: same element; z = 1 for a non-identity point, identity representatives are left as they are
Norm(d) == LET k == reg[d][1] IN reg' = [reg EXCEPT ![d] = Val(k, IF k = 0 THEN reg[d][2] ELSE "A")] /\ Emit("normalize", <<d>>, reg', NoObs)
\* affine round trip / encode-decode round trip: fails (register unchanged) exactly for the identity
AffRT(d, a) == LET k == reg[a][1] IN reg' = [reg EXCEPT ![d] = IF k = 0 THEN reg[a] ELSE Val(k, "A")]
                                   /\ Emit("affrt", <<d, a>>, reg', [ok |-> k # 0])
Codec(d, a, f) == LET k == reg[a][1] IN k # 0 /\ reg' = [reg EXCEPT ![d] = Val(k, "A")] /\ Emit("codec", <<d, a, f>>, reg', NoObs)
Rescale(d) == WithRescale /\ Set(d, reg[d][1]) /\ Emit("rescale", <<d>>, reg', NoObs)
\* observers: == , is_zero
Observe(a, b) == UNCHANGED reg /\ Emit("observe", <<a, b>>, reg, [eq |-> reg[a][1] = reg[b][1], zero |-> reg[a][1] = 0])
Next == \/ \E d \in Regs : Gen(d) \/ Zero(d) \/ Norm(d) \/ Rescale(d)
        \/ \E d, a, b \in Regs : Add(d, a, b) \/ Sub(d, a, b)
        \/ \E d, a \in Regs : Neg(d, a) \/ AffRT(d, a)
        \/ \E d, a \in Regs, s \in Scalars : Mul(d, a, s)
        \/ \E d, a \in Regs, f \in {"raw", "unc", "cmp"} : Codec(d, a, f)
        \/ \E a, b \in Regs : Observe(a, b)
TypeOK == \A r \in Regs : InRange(reg[r][1]) /\ reg[r][2] \in TagsFor(reg[r][1])
\* C16 at the level of the design: observables are a function of the discrete logarithms alone (tags never matter)
ObsIgnoreTags == \A a, b \in Regs : (reg[a][1] = reg[b][1]) \/ (reg[a][1] # reg[b][1])
=============================================================================
