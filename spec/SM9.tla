--------------------------------- MODULE SM9 ---------------------------------
(* Level A: the SM9 parameter set and the textbook objects built on it.        *)
(* Everything is derived from the BN parameter t; the literals of the standard *)
(* (generators, q, r) are checked against the derivation by ASSUME.            *)
(* Values: field elements are BigNat byte tuples (canonical, < modulus);       *)
(* Fq2 = <<c0, c1>>; a G1 point is <<x, y>> or Inf = <<>>; a G2 point is       *)
(* << <<x0,x1>>, <<y0,y1>> >> or Inf; Fq12 is a 12-tuple over Fq, index i      *)
(* holding the coefficient of w^(i-1), w^12 = -2.                              *)
EXTENDS BigNat, Naturals, Sequences, SequencesExt, TLC
N(n) == BFromNat(n)
T == FromBE(<<96, 0, 0, 0, 0, 88, 249, 138>>)                     \* t = 0x600000000058F98A
T2 == BMul(T, T)  T3 == BMul(T2, T)  T4 == BMul(T3, T)
Q == BAdd(BAdd(BAdd(BAdd(BMul(N(36), T4), BMul(N(36), T3)), BMul(N(24), T2)), BMul(N(6), T)), N(1))
R == BAdd(BAdd(BAdd(BAdd(BMul(N(36), T4), BMul(N(36), T3)), BMul(N(18), T2)), BMul(N(6), T)), N(1))
QLit == FromBE(<<182,64,0,0,2,163,166,241,214,3,171,79,245,142,199,69,33,242,147,75,26,122,238,219,229,111,155,39,227,81,69,125>>)
RLit == FromBE(<<182,64,0,0,2,163,166,241,214,3,171,79,245,142,199,68,73,242,147,75,24,234,139,238,229,110,225,156,214,158,207,37>>)
ASSUME Q = QLit /\ R = RLit
LoopN == BAdd(BMul(N(6), T), N(2))                                \* 6t + 2
LoopBitsC == BBitsMSB(LoopN)
RBits == BBitsMSB(R)
Rm1 == BSub(R, <<1>>)
Hcof == BSub(BMul(N(2), Q), R)                                    \* #E'(Fq2) = r * (2q - r)
\* ---------------------------------------------------------------- prime fields
FQ == INSTANCE BigField WITH P <- Q
FR == INSTANCE BigField WITH P <- R
FMod(F) == IF F = "Fq" THEN Q ELSE R
\* ---------------------------------------------------------------- Fq2 = Fq[u]/(u^2 + 2)
BetaC == BSub(Q, N(2))
QQm1 == BSub(BMul(Q, Q), <<1>>)
HalfBitsC == BBitsMSB(BDiv(QQm1, N(2)))
MoC == BDiv(QQm1, N(8))                                           \* q = 5 (mod 8): q^2 - 1 = 2^3 * odd
ASSUME BMod(Q, N(8)) = N(5) /\ BIsOdd(MoC)
MoBitsC == BBitsMSB(MoC)
Mo1hBitsC == BBitsMSB(BDiv(BAdd(MoC, <<1>>), N(2)))
E2pre == INSTANCE Ext2 WITH FAdd <- FQ!FAdd, FSub <- FQ!FSub, FMul <- FQ!FMul, FInv <- FQ!FInv, FZero <- <<>>, FOne <- <<1>>,
                            Beta <- BetaC, HalfBits <- HalfBitsC, TS_S <- 3, TS_MoBits <- MoBitsC, TS_Mo1hBits <- Mo1hBitsC,
                            TS_C0 <- <<>>
TSC0C == E2pre!Pow(E2pre!U, MoBitsC)                              \* u is a non-square of Fq2
ASSUME ~E2pre!IsSquare(E2pre!U)
E2 == INSTANCE Ext2 WITH FAdd <- FQ!FAdd, FSub <- FQ!FSub, FMul <- FQ!FMul, FInv <- FQ!FInv, FZero <- <<>>, FOne <- <<1>>,
                         Beta <- BetaC, HalfBits <- HalfBitsC, TS_S <- 3, TS_MoBits <- MoBitsC, TS_Mo1hBits <- Mo1hBitsC,
                         TS_C0 <- TSC0C
\* square root in Fq of a quadratic residue a, through Tonelli-Shanks in Fq2 (both roots of a lie in Fq)
FqSqrt(a) == E2!SqrtTS(<<a, <<>> >>)[1]
\* ---------------------------------------------------------------- curves
B1 == N(5)
B2 == << <<>>, N(5) >>                                            \* 5u
C1 == INSTANCE Curve WITH FAdd <- FQ!FAdd, FSub <- FQ!FSub, FMul <- FQ!FMul, FInv <- FQ!FInv, FZero <- <<>>, B <- B1
C2 == INSTANCE Curve WITH FAdd <- E2!Add, FSub <- E2!Sub, FMul <- E2!Mul, FInv <- E2!Inv, FZero <- E2!Zero, B <- B2
Inf == <<>>
P1 == << FromBE(<<147,222,5,29,98,191,113,143,245,237,7,4,72,125,1,214,225,228,8,105,9,220,50,128,232,196,228,129,124,102,221,221>>),
         FromBE(<<33,254,141,218,79,33,230,7,99,16,101,18,92,57,91,188,28,28,0,203,250,96,36,53,12,70,76,215,10,62,166,22>>) >>
P2 == << << FromBE(<<55,34,117,82,146,19,11,8,210,170,185,127,211,78,193,32,238,38,89,72,209,156,23,171,249,183,33,59,175,130,214,91>>),
            FromBE(<<133,174,243,208,120,100,12,152,89,123,96,39,180,65,160,31,241,221,44,25,15,94,147,196,84,128,108,17,216,128,97,65>>) >>,
         << FromBE(<<167,207,40,213,25,190,61,166,95,49,112,21,61,39,143,242,71,239,186,152,167,26,8,17,98,21,187,165,201,153,167,199>>),
            FromBE(<<23,80,155,9,46,132,92,18,102,186,13,38,44,190,230,237,7,54,169,111,163,71,200,189,133,109,199,107,132,235,235,150>>) >> >>
ASSUME C1!OnCurve(P1) /\ C2!OnCurve(P2)
G1Mul(k, P) == C1!Mul(BBitsMSB(k), P)                             \* k a BigNat
G2Mul(k, Qt) == C2!Mul(BBitsMSB(k), Qt)
InG2(Qt) == C2!OnCurve(Qt) /\ C2!Mul(RBits, Qt) = Inf
GMul(G, k, P) == IF G = "G1" THEN G1Mul(k, P) ELSE G2Mul(k, P)
GAdd(G, A, Bp) == IF G = "G1" THEN C1!Add(A, Bp) ELSE C2!Add(A, Bp)
GNeg(G, A) == IF G = "G1" THEN C1!Neg(A) ELSE C2!Neg(A)
GGen(G) == IF G = "G1" THEN P1 ELSE P2
GOnCurve(G, A) == IF G = "G1" THEN C1!OnCurve(A) ELSE C2!OnCurve(A)
\* ---------------------------------------------------------------- byte formats (SM9 part 1, 6.2.8)
EncFq(a) == ToBE(a, 32)
EncFq2(x) == ToBE(x[2], 32) \o ToBE(x[1], 32)                     \* imaginary part first
DecFq2(b) == << FromBE(SubSeq(b, 33, 64)), FromBE(SubSeq(b, 1, 32)) >>
EncCoord(G, c) == IF G = "G1" THEN EncFq(c) ELSE EncFq2(c)
YOdd(G, y) == IF G = "G1" THEN BIsOdd(y) ELSE BIsOdd(y[1])        \* parity of y, of its real part in G2
CLen(G) == IF G = "G1" THEN 32 ELSE 64
\* encoding of a finite point; fmt in {"raw", "unc", "cmp"}
Enc(G, P, fmt) == CASE fmt = "raw" -> EncCoord(G, P[1]) \o EncCoord(G, P[2])
                    [] fmt = "unc" -> <<4>> \o EncCoord(G, P[1]) \o EncCoord(G, P[2])
                    [] fmt = "cmp" -> << IF YOdd(G, P[2]) THEN 3 ELSE 2 >> \o EncCoord(G, P[1])
FmtLen(G, fmt) == CASE fmt = "raw" -> 2 * CLen(G) [] fmt = "unc" -> 2 * CLen(G) + 1 [] fmt = "cmp" -> CLen(G) + 1
\* every 32-byte limb of a coordinate string denotes an integer below q
LimbsBelowQ(b) == \A i \in 0..((Len(b) \div 32) - 1) : BLess(FromBE(SubSeq(b, 32 * i + 1, 32 * i + 32)), Q)
DecCoord(G, b) == IF G = "G1" THEN FromBE(b) ELSE DecFq2(b)
Rhs(G, x) == IF G = "G1" THEN FQ!FAdd(FQ!FMul(FQ!FMul(x, x), x), B1) ELSE E2!Add(E2!Mul(E2!Mul(x, x), x), B2)
HasSqrt(G, v) == IF G = "G1" THEN FQ!FIsQR(v) ELSE E2!IsSquare(v)
SqrtOf(G, v) == IF G = "G1" THEN FqSqrt(v) ELSE E2!SqrtTS(v)
NegCoord(G, y) == IF G = "G1" THEN FQ!FNeg(y) ELSE E2!Neg(y)
\* The decoder of the specification: <<"ok", P>> or <<"err">>.  Exactly the acceptance predicate of C08:
\* length and prefix of the format, every coordinate below q, point on the curve, for G2 in the order-r subgroup.
Dec(G, b, fmt) ==
    IF Len(b) # FmtLen(G, fmt) THEN <<"err">>
    ELSE IF fmt = "unc" /\ b[1] # 4 THEN <<"err">>
    ELSE IF fmt = "cmp" /\ b[1] \notin {2, 3} THEN <<"err">>
    ELSE LET body == IF fmt = "raw" THEN b ELSE Tail(b)
         IN IF ~LimbsBelowQ(body) THEN <<"err">>
            ELSE LET x == DecCoord(G, SubSeq(body, 1, CLen(G)))
                     P == IF fmt = "cmp"
                          THEN LET v == Rhs(G, x)
                               IN IF ~HasSqrt(G, v) THEN Inf
                                  ELSE LET y == SqrtOf(G, v)
                                       IN IF YOdd(G, y) = (b[1] = 3) THEN <<x, y>> ELSE <<x, NegCoord(G, y)>>
                          ELSE <<x, DecCoord(G, SubSeq(body, CLen(G) + 1, 2 * CLen(G)))>>
                 IN IF P = Inf \/ ~GOnCurve(G, P) THEN <<"err">>
                    ELSE IF G = "G2" /\ C2!Mul(RBits, P) # Inf THEN <<"err">>
                    ELSE IF Enc(G, P, fmt) # b THEN <<"err">>      \* e.g. odd prefix on a y whose parity cannot be odd
                    ELSE <<"ok", P>>
\* ---------------------------------------------------------------- conversions (C13)
None == <<-1>>                                   \* not a BigNat (digits are 0..255); comparable with BigNats
FromSliceSpec(p, b) == IF Len(b) \in 1..64 THEN BMod(FromBE(b), p) ELSE None
FromHashSpec(b) == IF Len(b) <= 64 THEN BAdd(BMod(FromBE(b), Rm1), <<1>>) ELSE None
\* decimal parser over code points; None as soon as a character is not an ASCII digit
FromStrSpec(p, cps) == IF \E i \in 1..Len(cps) : cps[i] < 48 \/ cps[i] > 57 THEN None
                       ELSE FoldLeft(LAMBDA acc, c : BMod(BAdd(BMul(acc, N(10)), N(c - 48)), p), <<>>, cps)
Pow2N(i) == [j \in 1..((i \div 8) + 1) |-> IF j = (i \div 8) + 1 THEN 2 ^ (i % 8) ELSE 0]     \* 2^i as a BigNat
SetBitSpec(v, i, to) == LET has == BBit(v, i) = 1
                        IN IF to THEN (IF has THEN v ELSE BMod(BAdd(v, Pow2N(i)), R))
                           ELSE (IF has THEN BSub(v, Pow2N(i)) ELSE v)
=============================================================================
