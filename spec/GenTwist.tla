------------------------------- MODULE GenTwist -------------------------------
(* Inputs for C09 that need mathematics to construct, computed by TLC from the *)
(* Level-A specification: points of the twist E'(Fq2): y^2 = x^3 + 5u outside  *)
(* the order-r subgroup G2 (random points of order r*h, points of order 13,    *)
(* 1621, 13*1621 obtained by clearing the complementary factor, sums of a      *)
(* subgroup point and a small-order point), points inside it (cofactor-cleared *)
(* points, multiples of P2), near misses, points of other curves; and on/off   *)
(* curve pairs for G1.  Environment: SEED (decimal), NPTS, OUT.                *)
EXTENDS SM9, Json, IOUtils, FiniteSets
RH == BMul(R, Hcof)
ASSUME BMod(Hcof, N(13 * 1621)) = <<>>
Lcg(s) == BMod(BAdd(BMul(s, FromBE(<<88, 81, 244, 45, 76, 149, 127, 45>>)), FromBE(<<20, 5, 123, 126, 247, 103, 129, 79>>)), Q)
\* first x = <<Lcg(s), Lcg^2(s)>>, s advanced until rhs(x) + d is a non-zero square; returns << x, y, s' >> on y^2 = x^3 + 5u + d
RECURSIVE FindOn(_, _)
FindOn(s, d) == LET x == << Lcg(s), Lcg(Lcg(s)) >>
                    rhs == E2!Add(Rhs("G2", x), d)
                IN IF rhs # E2!Zero /\ E2!IsSquare(rhs) THEN << x, E2!SqrtTS(rhs), Lcg(Lcg(s)) >> ELSE FindOn(Lcg(Lcg(s)), d)
RECURSIVE FindOn1(_)
FindOn1(s) == LET x == Lcg(s)  rhs == Rhs("G1", x)
              IN IF rhs # <<>> /\ FQ!FIsQR(rhs) THEN << x, FqSqrt(rhs), Lcg(s) >> ELSE FindOn1(Lcg(s))
Pt2(kind, P) == [kind |-> kind, x |-> EncFq2(P[1]), y |-> EncFq2(P[2])]
Pt1(kind, P) == [kind |-> kind, x |-> EncFq(P[1]), y |-> EncFq(P[2])]
MulBy(k, P) == C2!Mul(BBitsMSB(k), P)
\* the family derived from one random twist point Rp and one scalar k
Family(Rp, k) ==
    LET S == G2Mul(k, P2)                                           \* a subgroup point
        c13 == MulBy(BDiv(RH, N(13)), Rp)
        c1621 == MulBy(BDiv(RH, N(1621)), Rp)
        c21073 == MulBy(BDiv(RH, N(13 * 1621)), Rp)
        cleared == MulBy(Hcof, Rp)
        one2 == E2!One
    IN << Pt2("random-twist-point", Rp), Pt2("subgroup", S), Pt2("subgroup-neg", C2!Neg(S)),
          Pt2("near-miss-y+1", << S[1], E2!Add(S[2], one2) >>), Pt2("near-miss-x+1", << E2!Add(S[1], one2), S[2] >>),
          Pt2("near-miss-swapped", << S[2], S[1] >>), Pt2("near-miss-conj", << E2!Conj(S[1]), E2!Conj(S[2]) >>) >>
       \o (IF cleared # Inf THEN << Pt2("cofactor-cleared", cleared) >> ELSE <<>>)
       \o (IF c13 # Inf THEN << Pt2("order-13", c13), Pt2("subgroup-plus-order-13", C2!Add(S, c13)) >> ELSE <<>>)
       \o (IF c1621 # Inf THEN << Pt2("order-1621", c1621), Pt2("subgroup-plus-order-1621", C2!Add(S, c1621)) >> ELSE <<>>)
       \o (IF c21073 # Inf THEN << Pt2("order-dividing-13*1621", c21073) >> ELSE <<>>)
Seed == BMod(FoldLeft(LAMBDA acc, c : BAdd(BMul(acc, N(10)), N(c)), <<1>>,
                      [i \in 1..Len(IOEnv.SEED) |-> (CHOOSE d \in 0..9 : ToString(d) = SubSeq(IOEnv.SEED, i, i))]), Q)
NPts == CHOOSE n \in 1..64 : ToString(n) = IOEnv.NPTS
RECURSIVE G2List(_, _)
G2List(s, n) == IF n = 0 THEN <<>>
                ELSE LET f == FindOn(s, E2!Zero)
                     IN Family(<< f[1], f[2] >>, BAdd(Lcg(f[3]), <<2>>)) \o G2List(Lcg(f[3]), n - 1)
WrongB(s) == LET f == FindOn(s, E2!One) IN << Pt2("other-curve-b+1", << f[1], f[2] >>) >>
Untwisted(s) == LET f == FindOn1(s) IN << Pt2("untwisted-curve-point", << << f[1], <<>> >>, << f[2], <<>> >> >>) >>
RECURSIVE G1List(_, _)
G1List(s, n) == IF n = 0 THEN <<>>
                ELSE LET f == FindOn1(s)  P == << f[1], f[2] >>
                     IN << Pt1("on-curve", P), Pt1("on-curve-neg", C1!Neg(P)), Pt1("off-curve-y+1", << P[1], FQ!FAdd(P[2], <<1>>) >>),
                           Pt1("off-curve-x+1", << FQ!FAdd(P[1], <<1>>), P[2] >>), Pt1("off-curve-swapped", << P[2], P[1] >>),
                           Pt1("generator-multiple", G1Mul(BAdd(f[3], <<2>>), P1)) >> \o G1List(Lcg(f[3]), n - 1)
VARIABLE done
Init == done = FALSE
Next == ~done /\ done' = TRUE
        /\ LET g2 == G2List(Seed, NPts) \o WrongB(Lcg(Seed)) \o Untwisted(Lcg(Lcg(Seed)))
                    \o << Pt2("generator", P2), Pt2("zero-zero", << E2!Zero, E2!Zero >>) >>
               g1 == G1List(Lcg(Lcg(Lcg(Seed))), NPts) \o << Pt1("generator", P1), Pt1("zero-zero", << <<>>, <<>> >>) >>
           IN JsonSerialize(IOEnv.OUT, [g2 |-> g2, g1 |-> g1]) /\ PrintT(<<"GENTWIST", Len(g2), Len(g1)>>)
=============================================================================
