------------------------------ MODULE TraceTower ------------------------------
(* Event checks, part 4 (C17): the F_q^4 / F_q^12 tower engine, both final     *)
(* exponentiations and both Miller loops on arbitrary elements, observed       *)
(* through the cfg(john_yu_sm9_core_verif) hooks, against F_q[w]/(w^12 + 2).   *)
EXTENDS TraceMachine
F4Canon(b) == IsByteStr(b, 128) /\ LimbsBelowQ(b)
\* F_q^4 = F_q^2[v]/(v^2 - u) inside F_q^12: v = w^3, u = w^6.  128 bytes = c1.c1 | c1.c0 | c0.c1 | c0.c0
F4To12(b) == LET L(j) == Limb(b, j)
             IN X!T12(LAMBDA i : CASE i = 1 -> L(4) [] i = 4 -> L(2) [] i = 7 -> L(3) [] i = 10 -> L(1) [] OTHER -> <<>>)
InF4(x) == \A i \in 1..12 : i \in {1, 4, 7, 10} \/ x[i] = <<>>
F12To4(x) == ToBE(x[10], 32) \o ToBE(x[4], 32) \o ToBE(x[7], 32) \o ToBE(x[1], 32)
WPow(j) == X!T12(LAMBDA i : IF i = j + 1 THEN <<1>> ELSE <<>>)                     \* w^j
U128(b) == FromBE(b)
\* the constants of the addition chains are the polynomials in t they are supposed to be; the signed digits of the
\* Miller loop (2 stands for -1, after an implicit leading 1) expand 6t + 2
ChkXConsts(e) ==
    /\ U128(e.s) = T /\ U128(e.loopn) = LoopN /\ U128(e.a2) = BAdd(BMul(N(6), T2), N(1)) /\ U128(e.a3) = BAdd(BMul(N(6), T), N(5))
    /\ U128(e.nine) = N(9)
    /\ FoldLeft(LAMBDA acc, d : IF d = 2 THEN BSub(BAdd(acc, acc), <<1>>) ELSE BAdd(BAdd(acc, acc), N(d)), <<1>>, e.loop_count) = LoopN
ChkX12Mul(e) == /\ GtCanon(e.a) /\ GtCanon(e.b) /\ GtCanon(e.out) /\ GtCanon(e.sqr)
                /\ e.out = Ser12(X!Mul(D12(e.a), D12(e.b))) /\ e.sqr = Ser12(X!Sqr(D12(e.a)))
ChkX12Inv(e) == GtCanon(e.a) /\ IF D12(e.a) = X!Zero THEN IsNone(e.out)
                                ELSE IsSome(e.out) /\ GtCanon(e.out.v) /\ X!Mul(D12(e.out.v), D12(e.a)) = X!One
ChkX12Frob(e) == GtCanon(e.a) /\ GtCanon(e.out) /\ e.k \in {1, 2, 3, 6} /\ e.out = Ser12(X!Frob(D12(e.a), e.k))
ChkX12Mul015(e) == /\ GtCanon(e.a) /\ GtCanon(e.b) /\ GtCanon(e.out)
                   /\ e.out = Ser12(X!Mul(D12(e.a), D12(e.b)))
ChkX12Pow(e) == GtCanon(e.a) /\ GtCanon(e.out) /\ e.out = Ser12(GtPowN(D12(e.a), U128(e.e)))
ChkX12Scale(e) == /\ GtCanon(e.a) /\ F4Canon(e.s) /\ GtCanon(e.out) /\ GtCanon(e.mnr)
                  /\ e.out = Ser12(X!Mul(D12(e.a), F4To12(e.s)))
                  /\ e.mnr = Ser12(X!Mul(D12(e.a), X!W))                             \* the cubic non-residue of the tower is w
ChkX4Mul(e) ==
    /\ F4Canon(e.a) /\ F4Canon(e.b) /\ F4Canon(e.out) /\ F4Canon(e.sqr) /\ F4Canon(e.mnr)
    /\ LET a == F4To12(e.a)  bb == F4To12(e.b)  ab == X!Mul(a, bb)  aa == X!Sqr(a)  av == X!Mul(a, WPow(3))
       IN /\ InF4(ab) /\ e.out = F12To4(ab) /\ InF4(aa) /\ e.sqr = F12To4(aa)
          /\ InF4(av) /\ e.mnr = F12To4(av)                                          \* the quadratic non-residue of F_q^4 is v = w^3
          /\ (IF a = X!Zero THEN IsNone(e.inv)
              ELSE IsSome(e.inv) /\ F4Canon(e.inv.v) /\ X!Mul(F4To12(e.inv.v), a) = X!One)
ChkX4Mul1(e) == /\ F4Canon(e.a) /\ F4Canon(e.b) /\ F4Canon(e.out)
                /\ LET ab == X!Mul(F4To12(e.a), F4To12(e.b)) IN InF4(ab) /\ e.out = F12To4(ab)
\* Fq4::frobenius_map(10*k + j): the q^k-power Frobenius of F_q^12 restricted to the coefficient of w^j
ChkX4Frob(e) ==
    /\ F4Canon(e.a) /\ F4Canon(e.out) /\ e.code \in {10, 11, 12, 21, 22, 30, 31, 32}
    /\ LET k == e.code \div 10  j == e.code % 10
           img == X!Frob(X!Mul(F4To12(e.a), WPow(j)), k)
       IN img = X!Mul(F4To12(e.out), WPow(j))
FinalExpOf(x) == X!Pow(x, FinalBitsC)
ChkXFe(e) == GtCanon(e.a) /\
             IF D12(e.a) = X!Zero THEN IsNone(e.fe1) /\ IsNone(e.fe2)
             ELSE /\ IsSome(e.fe1) /\ IsSome(e.fe2) /\ GtCanon(e.fe1.v) /\ GtCanon(e.fe2.v)
                  /\ e.fe1.v = Ser12(FinalExpOf(D12(e.a))) /\ e.fe2.v = e.fe1.v
\* both Miller-loop variants agree up to factors that the final exponentiation removes, and with the textbook pairing
ChkXMiller(e) ==
    /\ JacOK("G1", e.p) /\ JacOK("G2", e.q) /\ GtCanon(e.m1) /\ GtCanon(e.m2)
    /\ LET P == AbsJ("G1", e.p)  Qp == AbsJ("G2", e.q)  want == Pair(P, Qp)
       IN /\ P = Dl("G1", e.ka) /\ Qp = Dl("G2", e.kb)
          /\ FinalExpOf(D12(e.m1)) = want /\ FinalExpOf(D12(e.m2)) = want
\* drift check (coverage, not a verdict): MillerAlgo - the transcription of both loops that MC_MillerToy compares with the
\* textbook pairing on the toy curve - evaluated at SM9 size must reproduce the code's EXACT Miller values
MillerDrift(e) == LET P == AbsJ("G1", e.p)  Qp == AbsJ("G2", e.q)  QJ == << Qp[1], Qp[2], E2!One >>
                  IN { IF MA!MillerG2(QJ, P) = D12(e.m1) THEN "drift.miller_g2.same" ELSE "drift.miller_g2.diff",
                       IF MA!MillerPrepared(MA!Prepare(QJ), P) = D12(e.m2) THEN "drift.miller_prepared.same" ELSE "drift.miller_prepared.diff" }
TowerOps == {"x.consts", "x.fq12.mul", "x.fq12.inv", "x.fq12.frob", "x.fq12.mul015", "x.fq12.pow", "x.fq12.scale",
             "x.fq4.mul", "x.fq4.mul1", "x.fq4.frob", "x.fe", "x.miller"}
\* the constants of the code's addition chains are those of the Level-B model ImplFinalExp: a DRIFT indicator (coverage), never a
\* verdict - C17 constrains the values computed by the final exponentiation (x.fe), not how the chain is organised
ConstsDrift(e) == { IF ChkXConsts(e) THEN "drift.consts.same" ELSE "drift.consts.diff" }
ChkTower(e) == CASE e.op = "x.consts" -> TRUE
                 [] e.op = "x.fq12.mul" -> ChkX12Mul(e)
                 [] e.op = "x.fq12.inv" -> ChkX12Inv(e)
                 [] e.op = "x.fq12.frob" -> ChkX12Frob(e)
                 [] e.op = "x.fq12.mul015" -> ChkX12Mul015(e)
                 [] e.op = "x.fq12.pow" -> ChkX12Pow(e)
                 [] e.op = "x.fq12.scale" -> ChkX12Scale(e)
                 [] e.op = "x.fq4.mul" -> ChkX4Mul(e)
                 [] e.op = "x.fq4.mul1" -> ChkX4Mul1(e)
                 [] e.op = "x.fq4.frob" -> ChkX4Frob(e)
                 [] e.op = "x.fe" -> ChkXFe(e)
                 [] e.op = "x.miller" -> ChkXMiller(e)
=============================================================================
