-------------------------------- MODULE Ext2 --------------------------------
(* Quadratic extension F[u]/(u^2 - Beta) over a prime field given by operators. *)
(* An element is a pair <<c0, c1>> = c0 + c1*u (c0 the "real", c1 the           *)
(* "imaginary" part).  Textbook formulas only.                                  *)
LOCAL INSTANCE Naturals
LOCAL INSTANCE Sequences
LOCAL INSTANCE SequencesExt
CONSTANTS FAdd(_, _), FSub(_, _), FMul(_, _), FInv(_), FZero, FOne,
          Beta,           \* u^2 = Beta (a non-square of the base field)
          HalfBits,       \* bits (msb first) of (p^2 - 1)/2, for the Euler criterion
          TS_S, TS_MoBits, TS_Mo1hBits, TS_C0
                          \* Tonelli-Shanks data: p^2 - 1 = 2^TS_S * Mo (Mo odd), bits of Mo, of (Mo+1)/2,
                          \* and TS_C0 = n^Mo for a fixed non-square n of the extension
Zero == << FZero, FZero >>
One == << FOne, FZero >>
U == << FZero, FOne >>
Emb(a) == << a, FZero >>
Add(x, y) == << FAdd(x[1], y[1]), FAdd(x[2], y[2]) >>
Sub(x, y) == << FSub(x[1], y[1]), FSub(x[2], y[2]) >>
Neg(x) == Sub(Zero, x)
Conj(x) == << x[1], FSub(FZero, x[2]) >>
Mul(x, y) == << FAdd(FMul(x[1], y[1]), FMul(Beta, FMul(x[2], y[2]))), FAdd(FMul(x[1], y[2]), FMul(x[2], y[1])) >>
Sqr(x) == Mul(x, x)
Scale(x, s) == << FMul(x[1], s), FMul(x[2], s) >>
Norm(x) == FSub(FMul(x[1], x[1]), FMul(Beta, FMul(x[2], x[2])))
Inv(x) == LET n == FInv(Norm(x)) IN << FMul(x[1], n), FSub(FZero, FMul(x[2], n)) >>          \* x # 0
Pow(a, bits) == FoldLeft(LAMBDA st, bit : << IF bit = 1 THEN Mul(Sqr(st[1]), st[2]) ELSE Sqr(st[1]), st[2] >>,
                         << One, a >>, bits)[1]
IsSquare(x) == x = Zero \/ Pow(x, HalfBits) = One
\* Tonelli-Shanks square root of a non-zero square a
RECURSIVE OrderExp(_, _)
OrderExp(t, i) == IF t = One THEN i ELSE OrderExp(Sqr(t), i + 1)           \* least i with t^(2^i) = 1
RECURSIVE SqN(_, _)
SqN(b, n) == IF n = 0 THEN b ELSE SqN(Sqr(b), n - 1)
RECURSIVE TSLoop(_, _, _, _)
TSLoop(x, c, t, m) == IF t = One THEN x
                      ELSE LET i == OrderExp(t, 0)
                               b == SqN(c, m - i - 1)
                               b2 == Sqr(b)
                           IN TSLoop(Mul(x, b), b2, Mul(t, b2), i)
SqrtTS(a) == IF a = Zero THEN Zero ELSE TSLoop(Pow(a, TS_Mo1hBits), TS_C0, Pow(a, TS_MoBits), TS_S)
=============================================================================
