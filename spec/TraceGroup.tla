------------------------------ MODULE TraceGroup ------------------------------
(* Event checks, part 2: group elements (C04, C05, C08, C09, C10, C14, C15).   *)
(* Operands and results are logged as Jacobian triples <<x, y, z>> of byte     *)
(* strings read through the public accessors; the specification abstracts them *)
(* itself (AbsJ) and never predicts which representative the code returns.     *)
EXTENDS TraceBase
CCanon(G, b) == IF G = "G1" THEN Canon("Fq", b) ELSE Canon2(b)
CZero(G) == IF G = "G1" THEN <<>> ELSE E2!Zero
COne(G) == IF G = "G1" THEN <<1>> ELSE E2!One
CMul(G, a, b) == IF G = "G1" THEN FQ!FMul(a, b) ELSE E2!Mul(a, b)
CAdd(G, a, b) == IF G = "G1" THEN FQ!FAdd(a, b) ELSE E2!Add(a, b)
CInv(G, a) == IF G = "G1" THEN FQ!FInv(a) ELSE E2!Inv(a)
CB(G) == IF G = "G1" THEN B1 ELSE B2
JacCanon(G, j) == Len(j) = 3 /\ CCanon(G, j[1]) /\ CCanon(G, j[2]) /\ CCanon(G, j[3])
JX(G, j) == DecCoord(G, j[1])
JY(G, j) == DecCoord(G, j[2])
JZ(G, j) == DecCoord(G, j[3])
\* the group element denoted by a Jacobian triple: every z = 0 value is the identity
AbsJ(G, j) == LET z == JZ(G, j)
              IN IF z = CZero(G) THEN Inf
                 ELSE LET zi == CInv(G, z)  zi2 == CMul(G, zi, zi)
                      IN << CMul(G, JX(G, j), zi2), CMul(G, JY(G, j), CMul(G, zi2, zi)) >>
\* y^2 = x^3 + b z^6 (any (x, y, 0) is accepted as the identity)
JacOnCurve(G, j) == LET x == JX(G, j)  y == JY(G, j)  z == JZ(G, j)
                        z2 == CMul(G, z, z)  z6 == CMul(G, z2, CMul(G, z2, z2))
                    IN z = CZero(G) \/ CMul(G, y, y) = CAdd(G, CMul(G, x, CMul(G, x, x)), CMul(G, CB(G), z6))
JacOK(G, j) == JacCanon(G, j) /\ JacOnCurve(G, j)
Dl(G, kb) == GMul(G, FromBE(kb), GGen(G))                       \* textbook k * generator
\* optional observation of a result through the library's own normalisation: the raw encoding (absent for the identity)
EncOK(e, want) == "enc" \in DOMAIN e => (IF want = Inf THEN IsNone(e.enc) ELSE IsSome(e.enc) /\ e.enc.v = Enc(e.G, want, "raw"))
Sampled(e, m) == e.seq % m = 0
\* ---------------------------------------------------------------- drift check of the Level-B transcription (coverage, never a verdict)
\* JacAlgo (the transcription model-checked exhaustively on tiny curves by ImplJacobian / ImplMachine) evaluated at SM9 size on
\* the logged operands must reproduce the code's EXACT output triple - the representative, not only the point.
JA1 == INSTANCE JacAlgo WITH FAdd <- FQ!FAdd, FSub <- FQ!FSub, FMul <- FQ!FMul, FInv <- FQ!FInv, FZero <- <<>>, FOne <- <<1>>
JA2 == INSTANCE JacAlgo WITH FAdd <- E2!Add, FSub <- E2!Sub, FMul <- E2!Mul, FInv <- E2!Inv, FZero <- E2!Zero, FOne <- E2!One
Trip(G, j) == << JX(G, j), JY(G, j), JZ(G, j) >>
AlgoOut(e) == LET G == e.G  A == Trip(G, e.a)
              IN CASE e.op = "g.add" -> IF G = "G1" THEN JA1!AddJ(A, Trip(G, e.b)) ELSE JA2!AddJ(A, Trip(G, e.b))
                   [] e.op = "g.sub" -> IF G = "G1" THEN JA1!SubJ(A, Trip(G, e.b)) ELSE JA2!SubJ(A, Trip(G, e.b))
                   [] e.op = "g.neg" -> IF G = "G1" THEN JA1!NegJ(A) ELSE JA2!NegJ(A)
                   [] e.op \in {"g.mul", "g.rmul"} -> IF G = "G1" THEN JA1!MulJ(A, BBitsMSB(FromBE(e.k))) ELSE JA2!MulJ(A, BBitsMSB(FromBE(e.k)))
DriftOps == {"g.add", "g.sub", "g.neg", "g.mul", "g.rmul"}
DriftCls(e) == IF e.op \in DriftOps THEN { IF AlgoOut(e) = Trip(e.G, e.out) THEN "drift.same" ELSE "drift.diff" } ELSE {}
\* ---------------------------------------------------------------- C04
ChkGAddSub(e) ==
    /\ JacOK(e.G, e.a) /\ JacOK(e.G, e.b) /\ JacOK(e.G, e.out)
    /\ LET A == AbsJ(e.G, e.a)  Bp == AbsJ(e.G, e.b)  O == AbsJ(e.G, e.out)
           want == IF e.op = "g.add" THEN GAdd(e.G, A, Bp) ELSE GAdd(e.G, A, GNeg(e.G, Bp))
       IN /\ O = want /\ e.isz = (want = Inf) /\ EncOK(e, want)
          /\ (Sampled(e, 16) /\ ~("nodl" \in DOMAIN e /\ e.nodl) =>       \* the logged discrete logarithms, by textbook scalar multiplication
                 /\ A = Dl(e.G, e.ka) /\ Bp = Dl(e.G, e.kb)
                 /\ O = Dl(e.G, ToBE(IF e.op = "g.add" THEN BAddMod(FromBE(e.ka), FromBE(e.kb), R) ELSE BSubMod(FromBE(e.ka), FromBE(e.kb), R), 32)))
ChkGNeg(e) == JacOK(e.G, e.a) /\ JacOK(e.G, e.out) /\ AbsJ(e.G, e.out) = GNeg(e.G, AbsJ(e.G, e.a)) /\ EncOK(e, GNeg(e.G, AbsJ(e.G, e.a)))
ChkGLaws(e) ==
    /\ \A j \in {e.a, e.b, e.c, e.ab, e.ba, e.ab_c, e.a_bc, e.a0, e.z0a} : JacOK(e.G, j)
    /\ LET A == AbsJ(e.G, e.a)  Bp == AbsJ(e.G, e.b)  Cp == AbsJ(e.G, e.c)
       IN /\ AbsJ(e.G, e.ab) = GAdd(e.G, A, Bp) /\ AbsJ(e.G, e.ba) = AbsJ(e.G, e.ab)
          /\ AbsJ(e.G, e.ab_c) = GAdd(e.G, GAdd(e.G, A, Bp), Cp) /\ AbsJ(e.G, e.a_bc) = AbsJ(e.G, e.ab_c)
          /\ AbsJ(e.G, e.a0) = A /\ AbsJ(e.G, e.z0a) = A
          /\ ("eqs" \in DOMAIN e => e.eqs = TRUE)          \* == holds between the two sides of every law, whatever their representatives
\* ---------------------------------------------------------------- C05
ChkGMul(e) == /\ JacOK(e.G, e.a) /\ JacOK(e.G, e.out) /\ Canon("Fr", e.k)
              /\ LET want == GMul(e.G, FromBE(e.k), AbsJ(e.G, e.a))
                 IN AbsJ(e.G, e.out) = want /\ e.isz = (want = Inf) /\ EncOK(e, want)
ChkGModLaws(e) ==
    /\ \A j \in {e.a, e.spt, e.sp_tp, e.st, e.s_tp, e.zero, e.one, e.m1, e.rm1p_p} : JacOK(e.G, j)
    /\ LET A == AbsJ(e.G, e.a)  s == FromBE(e.s)  t == FromBE(e.t)
       IN /\ AbsJ(e.G, e.spt) = GMul(e.G, BAddMod(s, t, R), A) /\ AbsJ(e.G, e.sp_tp) = AbsJ(e.G, e.spt)
          /\ AbsJ(e.G, e.st) = AbsJ(e.G, e.s_tp)
          /\ (Sampled(e, 4) => AbsJ(e.G, e.st) = GMul(e.G, BMulMod(s, t, R), A))
          /\ ("mix1" \in DOMAIN e =>                                  \* sP + sP with exactly one summand normalised: (s+s)P
                 /\ JacOK(e.G, e.mix1) /\ JacOK(e.G, e.mix2) /\ FromBE(e.s2) = BAddMod(s, s, R)
                 /\ AbsJ(e.G, e.mix1) = GAdd(e.G, GMul(e.G, s, A), GMul(e.G, s, A)) /\ AbsJ(e.G, e.mix2) = AbsJ(e.G, e.mix1))
          /\ AbsJ(e.G, e.zero) = Inf /\ AbsJ(e.G, e.one) = A /\ AbsJ(e.G, e.m1) = GNeg(e.G, A) /\ AbsJ(e.G, e.rm1p_p) = Inf
\* ---------------------------------------------------------------- C15
ChkGEq(e) == /\ JacCanon(e.G, e.a) /\ JacCanon(e.G, e.b)
             /\ e.out = (AbsJ(e.G, e.a) = AbsJ(e.G, e.b)) /\ e.rev = e.out /\ e.refl = TRUE
ChkGNormalize(e) == /\ JacOK(e.G, e.a) /\ JacOK(e.G, e.out)
                    /\ AbsJ(e.G, e.out) = AbsJ(e.G, e.a)
                    /\ e.isz = (AbsJ(e.G, e.a) = Inf)
                    /\ (AbsJ(e.G, e.a) # Inf => JZ(e.G, e.out) = COne(e.G))
ChkGToAffine(e) == /\ JacOK(e.G, e.a)
                   /\ LET A == AbsJ(e.G, e.a)
                      IN IF A = Inf THEN IsNone(e.out) /\ IsNone(e.back)
                         ELSE /\ IsSome(e.out) /\ e.out.v = << EncCoord(e.G, A[1]), EncCoord(e.G, A[2]) >>
                              /\ IsSome(e.back) /\ JacOK(e.G, e.back.v) /\ AbsJ(e.G, e.back.v) = A
\* remaining public surface: G1::b() = 5, G2::b() = 5u; set_x/set_y/set_z rebuild the same triple; affine setters
ChkGApi(e) == /\ e.b1 = EncFq(B1) /\ e.b2 = EncFq2(B2)
              /\ e.s1 = e.a1 /\ e.s2 = e.a2 /\ e.s1eq = TRUE /\ e.s2eq = TRUE
              /\ JacOK("G1", e.af1) /\ AbsJ("G1", e.af1) = AbsJ("G1", e.a1) /\ JacOK("G2", e.af2) /\ AbsJ("G2", e.af2) = AbsJ("G2", e.a2)
\* ---------------------------------------------------------------- C10
ChkGEncode(e) ==
    /\ JacOK(e.G, e.a)
    /\ LET A == AbsJ(e.G, e.a)
       IN /\ A # Inf
          /\ e.out = Enc(e.G, A, e.fmt)
          /\ IsSome(e.dec) /\ JacOK(e.G, e.dec.v) /\ AbsJ(e.G, e.dec.v) = A /\ e.deceq = TRUE
          /\ (e.anchor => A = (IF e.negated THEN GNeg(e.G, Dl(e.G, e.k)) ELSE Dl(e.G, e.k)))   \* textbook coordinates of k*P
\* ---------------------------------------------------------------- C08 / C09 / C14
ChkGDecode(e) ==
    LET d == Dec(e.G, e.in, e.fmt)
    IN IF d[1] = "ok"
       THEN e.out.t = "ok" /\ e.out.v = e.in /\ JacOK(e.G, e.out.jac) /\ AbsJ(e.G, e.out.jac) = d[2]
       ELSE e.out.t = "err"
ChkGAffineNew(e) ==
    LET ok == /\ CCanon(e.G, e.x) /\ CCanon(e.G, e.y)
              /\ LET P == << DecCoord(e.G, e.x), DecCoord(e.G, e.y) >>
                 IN GOnCurve(e.G, P) /\ (e.G = "G2" => C2!Mul(RBits, P) = Inf)
    IN e.out = (IF ok THEN "ok" ELSE "err")
=============================================================================
