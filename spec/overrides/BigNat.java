import tlc2.value.impl.*;
import java.math.BigInteger;

/** TLC operator overrides for module BigNat: same semantics as the *Def operators. */
public class BigNat {
  private static final Value[] SMALL = new Value[256];
  static { for (int i = 0; i < 256; i++) SMALL[i] = IntValue.gen(i); }

  static BigInteger toBig(Value v) {
    TupleValue t = (TupleValue) v.toTuple();
    if (t == null) throw new RuntimeException("BigNat: not a tuple: " + v);
    int n = t.size();
    byte[] b = new byte[n];
    for (int i = 0; i < n; i++) {
      int d = ((IntValue) t.elems[i]).val;
      if (d < 0 || d > 255) throw new RuntimeException("BigNat: digit out of range: " + v);
      b[n - 1 - i] = (byte) d;
    }
    return new BigInteger(1, b);
  }
  static Value fromBig(BigInteger x) {
    if (x.signum() < 0) throw new RuntimeException("BigNat: negative result");
    if (x.signum() == 0) return new TupleValue(new Value[0]);
    byte[] b = x.toByteArray();
    int start = (b[0] == 0) ? 1 : 0;
    int n = b.length - start;
    Value[] e = new Value[n];
    for (int i = 0; i < n; i++) e[i] = SMALL[b[b.length - 1 - i] & 0xff];
    return new TupleValue(e);
  }
  public static Value BLess(Value a, Value b) { return toBig(a).compareTo(toBig(b)) < 0 ? BoolValue.ValTrue : BoolValue.ValFalse; }
  public static Value BAdd(Value a, Value b) { return fromBig(toBig(a).add(toBig(b))); }
  public static Value BSub(Value a, Value b) { return fromBig(toBig(a).subtract(toBig(b))); }
  public static Value BMul(Value a, Value b) { return fromBig(toBig(a).multiply(toBig(b))); }
  public static Value BDiv(Value a, Value m) { return fromBig(toBig(a).divide(toBig(m))); }
  public static Value BMod(Value a, Value m) { return fromBig(toBig(a).mod(toBig(m))); }
  public static Value BAddMod(Value a, Value b, Value m) { BigInteger M = toBig(m), s = toBig(a).add(toBig(b)); return fromBig(s.compareTo(M) < 0 ? s : s.subtract(M)); }
  public static Value BSubMod(Value a, Value b, Value m) { BigInteger x = toBig(a), y = toBig(b); return fromBig(x.compareTo(y) < 0 ? x.add(toBig(m)).subtract(y) : x.subtract(y)); }
  public static Value BMulMod(Value a, Value b, Value m) { return fromBig(toBig(a).multiply(toBig(b)).mod(toBig(m))); }
  public static Value BModPow(Value a, Value e, Value m) { return fromBig(toBig(a).modPow(toBig(e), toBig(m))); }
  public static Value BModInvPrime(Value a, Value p) { return fromBig(toBig(a).modInverse(toBig(p))); }
  public static Value BDot(Value as, Value bs, Value m) {
    TupleValue x = (TupleValue) as.toTuple(), y = (TupleValue) bs.toTuple();
    BigInteger acc = BigInteger.ZERO;
    for (int i = 0; i < x.size(); i++) acc = acc.add(toBig(x.elems[i]).multiply(toBig(y.elems[i])));
    return fromBig(acc.mod(toBig(m)));
  }
  public static Value BBitsMSB(Value a) {
    BigInteger x = toBig(a);
    int n = x.bitLength();
    Value[] e = new Value[n];
    for (int i = 0; i < n; i++) e[i] = SMALL[x.testBit(n - 1 - i) ? 1 : 0];
    return new TupleValue(e);
  }
}
