------------------------------- MODULE GenPool -------------------------------
(* Operand pools for the 256-bit drivers, computed by TLC from the parameters. *)
(* For p in {q, r}: every value whose MONTGOMERY representation m = a*2^256     *)
(* mod p has its four 64-bit limbs in {0, 1, 2^63, 2^64-1, p_i, p_i-1, p_i+1}  *)
(* (mapped out of Montgomery form: a = m * 2^-256 mod p), plus the canonical    *)
(* boundary values, plus designated pairs whose Montgomery sum is exactly p or  *)
(* exactly 2^256, equal operands and successors.  Written as JSON.              *)
EXTENDS SM9, Json, IOUtils, FiniteSets
Pad(a, n) == a \o [i \in 1..(n - Len(a)) |-> 0]
Two64 == Pad(<<>>, 8) \o <<1>>
Two256 == Pad(<<>>, 32) \o <<1>>
Two255 == Pad(<<>>, 31) \o <<128>>
LimbOf(p, i) == BNorm(SubSeq(Pad(p, 32), 8 * (i - 1) + 1, 8 * i))                \* i = 1 least significant
LimbSet(p, i) == { <<>>, <<1>>, Pad(<<>>, 7) \o <<128>>, BSub(Two64, <<1>>), LimbOf(p, i),
                   BMod(BAdd(LimbOf(p, i), <<1>>), Two64), BMod(BAdd(LimbOf(p, i), BSub(Two64, <<1>>)), Two64),
                   BDiv(LimbOf(p, i), <<2>>), BAdd(BDiv(LimbOf(p, i), <<2>>), <<1>>) }       \* half-limb boundaries
Mont(p) == { m \in { BNorm(Pad(l1, 8) \o Pad(l2, 8) \o Pad(l3, 8) \o Pad(l4, 8)) :
                     l1 \in LimbSet(p, 1), l2 \in LimbSet(p, 2), l3 \in LimbSet(p, 3), l4 \in LimbSet(p, 4) } : BLess(m, p) }
RInv(p) == BModInvPrime(BMod(Two256, p), p)
OutOfMont(p, m) == BMulMod(m, RInv(p), p)
Direct(p) == { <<>>, <<1>>, <<2>>, <<3>>, BSub(p, <<1>>), BSub(p, <<2>>), BDiv(BSub(p, <<1>>), <<2>>), BDiv(BAdd(p, <<1>>), <<2>>),
               BSub(Two256, p), BSub(BSub(Two256, p), <<1>>), BMod(Two255, p), BSub(Two255, <<1>>) }
             \cup { BMod(Pad(<<>>, k) \o <<1>>, p) : k \in 1..31 }
Vals(p) == Direct(p) \cup { OutOfMont(p, m) : m \in Mont(p) }
\* pairs in the Montgomery domain: (m, p - m) sums to p; (m, 2^256 - m) sums to 2^256; (m, m); (m, m + 1)
MPairs(p) == LET S == Mont(p) \ { <<>> }
             IN { <<m, BSub(p, m)>> : m \in S }
                \cup { <<m, BSub(Two256, m)>> : m \in { x \in S : BLess(BSub(Two256, x), p) } }
                \cup { <<m, m>> : m \in S }
                \cup { <<m, BAdd(m, <<1>>)>> : m \in { x \in S : BLess(BAdd(x, <<1>>), p) } }
\* carry-class families for the interleaved sum of products (C12): Montgomery residues just below p, and small ones
HiRes(p) == { BSub(p, N(t)) : t \in 1..48 } \cup { BSub(p, Pad(<<>>, k) \o <<1>>) : k \in {1, 2, 4, 8, 16, 24, 30} }
\* small residues and single-limb residues (the Montgomery representation is a tiny integer, or has one non-zero limb)
SingleLimb(p) == { m \in { BNorm(Pad(<<>>, 8 * (i - 1)) \o Pad(v, 8)) : i \in 1..4, v \in UNION { LimbSet(p, j) : j \in 1..4 } } : m # <<>> /\ BLess(m, p) }
LoRes(p) == { N(t) : t \in 1..48 } \cup { Pad(<<>>, k) \o <<1>> : k \in {1, 2, 4, 8, 16, 24, 30} } \cup SingleLimb(p)
\* V-boundary families: operands for which the value V = (m_a m_b + k p) / 2^256 reached by the Montgomery reduction BEFORE
\* its conditional subtraction sits on a boundary (p-1, p, p+1, 2^256-1, 2^256, 2^256 + small, 2^256 + 2^64k +- 1, 2^256 + 2^192 -+ 1).
\* For a target v and a chosen m_a, m_b = v * 2^256 / m_a (mod p) gives V = v (mod p), i.e. V = v mod p or V = (v mod p) + p.
Two192 == Pad(<<>>, 24) \o <<1>>
Two128 == Pad(<<>>, 16) \o <<1>>
VTargets(p) == { BSub(p, <<1>>), p, BAdd(p, <<1>>), BSub(Two256, <<1>>), Two256, BAdd(Two256, <<1>>), BAdd(Two256, <<2>>),
                 BAdd(Two256, BSub(Two64, <<1>>)), BAdd(Two256, Two64), BAdd(Two256, Two128), BAdd(Two256, BSub(Two192, <<1>>)),
                 BAdd(Two256, Two192), BAdd(Two256, BSub(Two128, <<1>>)) } \cup { BAdd(Two256, N(t)) : t \in 3..12 }
Seeds == { N(3), N(5), N(7), N(11), BSub(Two64, <<59>>), BAdd(Two128, <<17>>), BAdd(Two192, <<1, 1>>), BSub(Two255, <<19>>) }
VPairs(p) == { << s, BMulMod(BMulMod(BMod(v, p), BMod(Two256, p), p), BModInvPrime(s, p), p) >> : v \in VTargets(p), s \in Seeds }
\* squares: m_a with m_a^2 = v * 2^256 (mod p), both roots, when v * 2^256 is a quadratic residue (p = 5 mod 8 for q; r is handled by the
\* generic Tonelli-Shanks below only for q: for r the family is left to the pairs above)
SqSeeds(p) == { BMulMod(BMod(v, p), BMod(Two256, p), p) : v \in VTargets(p) \cup { BAdd(Two256, N(t)) : t \in 13..60 } }
VSquares == LET qr == { c \in SqSeeds(Q) : FQ!FIsQR(c) /\ c # <<>> }
            IN UNION { { FqSqrt(c), FQ!FNeg(FqSqrt(c)) } : c \in qr }
\* quotient-pattern family: operand pairs whose Montgomery QUOTIENT k = -(m_a m_b) p^-1 mod 2^256 (the sequence of per-limb
\* quotient digits the reduction loop computes) is prescribed: digits in {0, 1, 2^64-1, 2^63, general}, in particular zero digits
\* at every position.  m_b = -k p m_a^-1 (mod 2^256) for an odd m_a; kept when m_b < p.
InvModR(a) == LET it(x) == BMod(BMul(x, BSub(BAdd(Two256, <<2>>), BMod(BMul(a, x), Two256))), Two256)      \* Newton: x <- x (2 - a x)
              IN it(it(it(it(it(it(it(it(<<1>>))))))))
QDigits == { <<>>, <<1>>, BSub(Two64, <<1>>), Pad(<<>>, 7) \o <<128>>, FromBE(<<18, 52, 86, 120, 154, 188, 222, 241>>) }
QPatterns == { k \in { BNorm(Pad(d1, 8) \o Pad(d2, 8) \o Pad(d3, 8) \o Pad(d4, 8)) : d1 \in QDigits, d2 \in QDigits, d3 \in QDigits, d4 \in QDigits } :
               k # <<>> }
OddSeeds == { N(3), BSub(Two64, <<59>>), BAdd(Two192, <<1, 1>>), BSub(Two255, <<19>>), FromBE(<<151, 3, 98, 241, 7, 201, 33, 119, 45, 12, 250, 66, 8, 19, 200, 5, 91, 77, 31, 2, 160, 14, 9, 101, 55, 240, 18, 6, 73, 99, 1, 37>>) }
QPairs(p) == LET cand == { << s, BMod(BMul(BSub(Two256, BMod(BMul(k, p), Two256)), InvModR(s)), Two256) >> : k \in QPatterns, s \in OddSeeds }
             IN { pr \in cand : BLess(pr[2], p) /\ BLess(pr[1], p) }
\* the same for the interleaved sum of products (imaginary coefficient of an Fq2 product: a0 b1 + a1 b0): for a prescribed quotient k,
\* b1 = (-k p - a1 b0) a0^-1 (mod 2^256) with a0 odd; quadruples <<a0, a1, b0, b1>> kept when b1 < p
SopSeeds == { << BSub(Two255, <<19>>), BAdd(Two192, <<7, 1>>), BSub(Two64, <<59>>) >>,
              << N(3), BSub(Two255, <<21>>), BAdd(Two128, <<17>>) >>,
              << BAdd(Two192, <<1, 1>>), N(5), BSub(Two255, <<201>>) >> }          \* <<a0 (odd), a1, b0>>
SopQuads(p) == LET cand == { << sd[1], sd[2], sd[3],
                                BMod(BMul(BSub(BMul(Two256, Two256), BAdd(BMod(BMul(k, p), Two256), BMod(BMul(sd[2], sd[3]), Two256))), InvModR(sd[1])), Two256) >>
                             : k \in QPatterns, sd \in SopSeeds }
               IN { c \in cand : BLess(c[4], p) }
\* near-equal family (for ==): Montgomery representations that differ in ONE limb, or in TWO limbs by the SAME xor-free delta
\* (limb_i + d, limb_j + d), or by different deltas - a comparison that folds limb differences together must still separate them
LimbAt(m, i) == BNorm(SubSeq(Pad(m, 32), 8 * (i - 1) + 1, 8 * i))
WithLimb(m, i, v) == BNorm(SubSeq(Pad(m, 32), 1, 8 * (i - 1)) \o Pad(v, 8) \o SubSeq(Pad(m, 32), 8 * i + 1, 32))
Bump(m, i, d) == WithLimb(m, i, BMod(BAdd(LimbAt(m, i), d), Two64))
EqBases(p) == { <<>>, <<1>>, BSub(p, <<1>>), BDiv(p, <<2>>), BSub(Two255, <<19>>), BAdd(Two192, <<7, 1>>), BAdd(Two128, BSub(Two64, <<59>>)),
                FromBE(<<18, 52, 86, 120, 154, 188, 222, 241, 1, 2, 3, 4, 5, 6, 7, 8, 9, 10, 11, 12, 13, 14, 15, 16, 17, 18, 19, 20, 21, 22, 23, 24>>) }
EqDeltas == { <<1>>, Pad(<<>>, 7) \o <<128>>, BSub(Two64, <<1>>), FromBE(<<165, 90, 60, 195, 15, 240, 51, 204>>) }
EqPairs(p) == LET one == { << m, Bump(m, i, d) >> : m \in EqBases(p), i \in 1..4, d \in EqDeltas }
                  two == { << m, Bump(Bump(m, ij[1], d), ij[2], d) >> : m \in EqBases(p), ij \in { <<1,2>>, <<1,3>>, <<1,4>>, <<2,3>>, <<2,4>>, <<3,4>> }, d \in EqDeltas }
                  mix == { << m, Bump(Bump(m, 3, d), 4, BMod(BAdd(d, d), Two64)) >> : m \in EqBases(p), d \in EqDeltas }
                  \* cross-over: the two operands agree except that one is larger in limb i and the other in limb j
                  cross == { << Bump(m, ij[1], d), Bump(m, ij[2], d) >> : m \in EqBases(p), ij \in { <<1,2>>, <<1,3>>, <<1,4>>, <<2,3>>, <<2,4>>, <<3,4>>, <<2,1>>, <<3,1>>, <<4,1>>, <<3,2>>, <<4,2>>, <<4,3>> }, d \in EqDeltas }
              IN { pr \in one \cup two \cup mix \cup cross : BLess(pr[1], p) /\ BLess(pr[2], p) }
\* squares whose Montgomery quotient has a ZERO digit at round i (i = 1, 2, 3): a = a_lo + W^i t + W^(i+1) hi, where the limb t solves
\* the linear congruence  c + 2 a_lo t = 0 (mod W),  c = limb i of (a_lo^2 + k_low p) / W^i,  k_low = -a_lo^2 p^-1 mod W^i
\* (solvable when c is even; a_lo odd).  Exercises the dedicated squaring routine where a reduction round has nothing to add.
WPow(i) == Pad(<<>>, 8 * i) \o <<1>>
SqZero(p, i, alo, hi) ==
    LET Wi == WPow(i)
        pinv == BMod(InvModR(p), Wi)
        sq == BMul(alo, alo)
        klow == BMod(BMul(BSub(Wi, BMod(sq, Wi)), pinv), Wi)
        c == BMod(BDiv(BAdd(sq, BMul(klow, p)), Wi), Two64)
        half == Pad(<<>>, 7) \o <<128>>
        ainv == BMod(InvModR(alo), Two64)
        t == BMod(BMul(BDiv(BSub(Two64, c), <<2>>), ainv), half)
    IN IF BIsOdd(c) THEN {}
       ELSE { a \in { BAdd(BAdd(alo, BMul(Wi, tt)), BMul(WPow(i + 1), hi)) : tt \in { t, BAdd(t, half) } } : BLess(a, p) }
SqSeedsLo == { <<3>>, BSub(Two64, <<59>>), FromBE(<<18, 52, 86, 120, 154, 188, 222, 241>>), FromBE(<<165, 90, 60, 195, 15, 240, 51, 205>>),
               FromBE(<<1, 35, 69, 103, 137, 171, 205, 239>>), FromBE(<<254, 220, 186, 152, 118, 84, 50, 17>>), <<7, 1>>, BSub(Two64, <<1>>) }
SqSeedsMid == { <<>>, FromBE(<<77, 1, 2, 3, 4, 5, 6, 7>>), BSub(Two64, <<3>>), FromBE(<<9, 8, 7, 6, 5, 4, 3, 2, 1, 0, 1, 2, 3, 4, 5, 6>>) }
SqZeros(p) == UNION { SqZero(p, 3, BAdd(BAdd(l, BMul(Two64, m1)), BMul(Two128, m2)), <<>>) : l \in SqSeedsLo, m1 \in SqSeedsMid, m2 \in { x \in SqSeedsMid : BLess(x, Two64) } }
              \cup UNION { SqZero(p, 2, BAdd(l, BMul(Two64, m1)), hi) : l \in SqSeedsLo, m1 \in { x \in SqSeedsMid : BLess(x, Two64) }, hi \in { <<5>>, BDiv(LimbOf(p, 4), <<3>>) } }
              \cup UNION { SqZero(p, 1, l, hi) : l \in SqSeedsLo, hi \in { <<9, 9>>, BAdd(Two64, <<1>>), BMul(Two64, BDiv(LimbOf(p, 4), <<2>>)) } }
\* conversion family: canonical x whose conversion INTO Montgomery form (the Montgomery product x * (2^512 mod p)) has a prescribed
\* quotient k, and values whose conversion OUT of Montgomery form (m * 1) has it: x (2^512 mod p) = -k p, resp. m = -k p (mod 2^256).
\* 2^512 mod q is even (2 u, u odd): k must be even and x is determined modulo 2^255 (both lifts kept).
R2Of(p) == BMod(BMul(Two256, Two256), p)
CvtIn(p) == LET r2 == R2Of(p)
                odd == BIsOdd(r2)
                u == IF odd THEN r2 ELSE BDiv(r2, <<2>>)
                M == IF odd THEN Two256 ELSE Two255
                ui == InvModR(u)
                ks == IF odd THEN QPatterns ELSE { k \in QPatterns : ~BIsOdd(k) }
                t(k) == BMod(BSub(Two256, BMod(BMul(k, p), Two256)), Two256)
                x0(k) == BMod(BMul(IF odd THEN t(k) ELSE BDiv(t(k), <<2>>), ui), M)
            IN { x \in UNION { IF odd THEN { x0(k) } ELSE { x0(k), BAdd(x0(k), M) } : k \in ks } : BLess(x, p) /\ x # <<>> }
CvtOut(p) == { OutOfMont(p, m) : m \in { mm \in { BMod(BSub(Two256, BMod(BMul(k, p), Two256)), Two256) : k \in QPatterns } : BLess(mm, p) /\ mm # <<>> } }
\* raw-product families: operands whose RAW 512-bit product (before any reduction) has prescribed HIGH limbs 4..7 - all ones, all
\* ones minus a little (so that the reduction carries into it), 0, 1, 2^63 - for the dedicated squaring (a = ceil(sqrt(P))) and for the
\* multiplication (u = ceil(P / v)); P has its low 256 bits clear, so a^2 - P < 2a + 1 and u v - P < v stay below 2^257 and (for the
\* patterns kept) do not disturb limbs 5..7.  Kept when the operands are below p.
HDigits == { <<>>, <<1>>, BSub(Two64, <<1>>), BSub(Two64, <<16>>), Pad(<<>>, 7) \o <<128>> }
HPatterns(p) == { P \in { Pad(<<>>, 32) \o BNorm(Pad(d4, 8) \o Pad(d5, 8) \o Pad(d6, 8) \o Pad(d7, 8)) : d4 \in { <<>>, BSub(Two64, <<16>>) }, d5 \in HDigits, d6 \in HDigits, d7 \in { <<>>, <<1>>, LimbOf(p, 4) } } :
                  BNorm(P) # <<>> /\ BLess(BNorm(P), BMul(p, p)) }
ISqrtUp(n) == LET it(x) == BDiv(BAdd(x, BDiv(n, x)), <<2>>)                       \* Newton from above: 2^256 -> floor(sqrt n); then round up
                  f == it(it(it(it(it(it(it(it(it(it(it(it(Two256))))))))))))
                  g == IF BLess(n, BMul(f, f)) THEN BSub(f, <<1>>) ELSE f               \* guard against a last overshoot
              IN IF BMul(g, g) = n THEN g ELSE BAdd(g, <<1>>)
SqHigh(p) == { a \in { ISqrtUp(BNorm(P)) : P \in HPatterns(p) } : BLess(a, p) /\ a # <<>> }
MulHigh(p) == LET cand == { << v, LET d == BDiv(BNorm(P), v) IN IF BMul(d, v) = BNorm(P) THEN d ELSE BAdd(d, <<1>>) >> : P \in HPatterns(p), v \in OddSeeds \cup { BSub(p, <<2>>) } }
              IN { pr \in cand : BLess(pr[2], p) /\ BLess(pr[1], p) /\ pr[2] # <<>> }
SqHighQ == SqHigh(Q)
SqHighR == SqHigh(R)
MulHighQ == MulHigh(Q)
MulHighR == MulHigh(R)
CvtQ == CvtIn(Q) \cup CvtOut(Q)              \* zero-arity: evaluated once
CvtR == CvtIn(R) \cup CvtOut(R)
CvtInQ == CvtIn(Q)
CvtInR == CvtIn(R)
Cvt(p) == IF p = Q THEN CvtQ ELSE CvtR
Enc32(a) == ToBE(a, 32)
PoolOf(p) == [ eqpairs |-> SetToSeq({ << Enc32(OutOfMont(p, pr[1])), Enc32(OutOfMont(p, pr[2])) >> : pr \in EqPairs(p) }),
               sopq |-> IF p = Q THEN SetToSeq({ << Enc32(OutOfMont(p, c[1])), Enc32(OutOfMont(p, c[2])), Enc32(OutOfMont(p, c[3])), Enc32(OutOfMont(p, c[4])) >> : c \in SopQuads(p) }) ELSE <<>>,
               qpairs |-> SetToSeq({ << Enc32(OutOfMont(p, pr[1])), Enc32(OutOfMont(p, pr[2])) >> : pr \in QPairs(p) \cup (IF p = Q THEN MulHighQ ELSE MulHighR) }),
               hpairs |-> SetToSeq({ << Enc32(OutOfMont(p, pr[1])), Enc32(OutOfMont(p, pr[2])) >> : pr \in (IF p = Q THEN MulHighQ ELSE MulHighR) }),
               sqhigh |-> SetToSeq({ Enc32(OutOfMont(p, m)) : m \in (IF p = Q THEN SqHighQ ELSE SqHighR) }),
               vpairs |-> SetToSeq({ << Enc32(OutOfMont(p, pr[1])), Enc32(OutOfMont(p, pr[2])) >> : pr \in VPairs(p) }),
               vsq |-> SetToSeq({ Enc32(OutOfMont(p, m)) : m \in (IF p = Q THEN VSquares ELSE {}) \cup SqZeros(p) \cup (IF p = Q THEN SqHighQ ELSE SqHighR) }),
               hi |-> SetToSeq({ Enc32(OutOfMont(p, m)) : m \in HiRes(p) }),
               lo |-> SetToSeq({ Enc32(OutOfMont(p, m)) : m \in LoRes(p) }),
               vals |-> SetToSeq({ Enc32(v) : v \in Vals(p) \cup Cvt(p) }),
               cvt |-> SetToSeq({ Enc32(v) : v \in Cvt(p) }),
               pairs |-> SetToSeq({ << Enc32(OutOfMont(p, pr[1])), Enc32(OutOfMont(p, pr[2])) >> : pr \in MPairs(p) }) ]
VARIABLE done
Init == done = FALSE
Next == ~done /\ done' = TRUE
          /\ JsonSerialize(IOEnv.OUT, [ Fq |-> PoolOf(Q), Fr |-> PoolOf(R) ])
          /\ \A s \in OddSeeds : BMod(BMul(s, InvModR(s)), Two256) = <<1>>
          /\ (\A a \in SqHighQ : \E P \in HPatterns(Q) : SubSeq(Pad(BMul(a, a), 64), 41, 64) = SubSeq(Pad(BNorm(P), 64), 41, 64))   \* limbs 5..7 as prescribed
          /\ (\A p \in {Q, R} : (BIsOdd(R2Of(p)) \/ BIsOdd(BDiv(R2Of(p), <<2>>))))
          /\ (\A p \in {Q, R} : \A x \in (IF p = Q THEN CvtInQ ELSE CvtInR) :          \* the quotient -x R2 p^-1 mod 2^256 of every generated x is one of the patterns
                 BMod(BMul(BMod(BSub(Two256, BMod(BMul(x, R2Of(p)), Two256)), Two256), InvModR(p)), Two256) \in QPatterns)
          /\ PrintT(<<"GENPOOL", Cardinality(Vals(Q)), Cardinality(MPairs(Q)), Cardinality(Vals(R)), Cardinality(MPairs(R))>>)
=============================================================================
