------------------------------- MODULE Pairing -------------------------------
\* R-ate pairing of the SM9 standard, evaluated naively on E(F_q^12):
\*   e(P,Q) = ( f_{6t+2,Q'}(P) * l_{[6t+2]Q', pi(Q')}(P) * l_{[6t+2]Q'+pi(Q'), -pi^2(Q')}(P) ) ^ ((q^12-1)/r)
\* with Q' = psi(Q) = (x/w^2, y/w^3) the untwisted point and pi the q-power Frobenius.
LOCAL INSTANCE Naturals
LOCAL INSTANCE Sequences
LOCAL INSTANCE SequencesExt
CONSTANTS FAdd(_, _), FSub(_, _), FMul(_, _), FInv(_), FDot(_, _), FZero, FOne,
          Beta, FrobTab,
          W2inv, W3inv,   \* w^-2, w^-3 in F_q^12, precomputed by the root module
          Bcoef,          \* E: y^2 = x^3 + Bcoef over F_q
          LoopBits,       \* bits of 6t+2, most significant first
          FinalBits       \* bits of (q^12-1)/r
X == INSTANCE Ext12
E12 == INSTANCE Curve WITH FAdd <- X!Add, FSub <- X!Sub, FMul <- X!Mul, FInv <- X!Inv, FZero <- X!Zero, B <- X!Emb(Bcoef)
\* Q = << <<x0, x1>>, <<y0, y1>> >> on the twist y^2 = x^3 + Bcoef*u
Untwist(Qt) == << X!Mul(X!Emb2(Qt[1]), W2inv), X!Mul(X!Emb2(Qt[2]), W3inv) >>
\* one Miller step on state <<f, T>>: returns <<f * l_{T,S}(P), T + S>>; the slope is computed once
Step(f, Tt, S, Pp) == LET l == E12!Slope(Tt, S)
                          ln == X!Sub(X!Sub(Pp[2], Tt[2]), X!Mul(l, X!Sub(Pp[1], Tt[1])))
                          x3 == X!Sub(X!Sub(X!Sqr(l), Tt[1]), S[1])
                      IN << X!Mul(f, ln), << x3, X!Sub(X!Mul(l, X!Sub(Tt[1], x3)), Tt[2]) >> >>
\* loop state <<f, T, Q', P'>> so that nothing loop-invariant is re-evaluated
MillerBit(st, bit) == LET d == Step(X!Sqr(st[1]), st[2], st[2], st[4])
                      IN IF bit = 1 THEN LET a == Step(d[1], d[2], st[3], st[4]) IN << a[1], a[2], st[3], st[4] >>
                         ELSE << d[1], d[2], st[3], st[4] >>
PairAffine(P, Qt) ==       \* P = <<x, y>> on E(F_q), Qt on the twist; both finite
    LET Pp == << X!Emb(P[1]), X!Emb(P[2]) >>
        Qp == Untwist(Qt)
        st == FoldLeft(MillerBit, << X!One, Qp, Qp, Pp >>, Tail(LoopBits))
        Q1 == << X!Frob(Qp[1], 1), X!Frob(Qp[2], 1) >>
        Q2 == E12!Neg(<< X!Frob(Qp[1], 2), X!Frob(Qp[2], 2) >>)
        s1 == Step(st[1], st[2], Q1, Pp)
        s2 == Step(s1[1], s1[2], Q2, Pp)
    IN X!Pow(s2[1], FinalBits)
Pair(P, Qt) == IF P = <<>> \/ Qt = <<>> THEN X!One ELSE PairAffine(P, Qt)
\* serialisation order of the implementation: c2|c1|c0, each Fq4 c1|c0, each Fq2 c1|c0; (k,j,i) -> w^(k+3j+6i)
SerOrder == << 12, 6, 9, 3, 11, 5, 8, 2, 10, 4, 7, 1 >>
=============================================================================
