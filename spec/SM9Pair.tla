------------------------------- MODULE SM9Pair -------------------------------
(* Level A, continued: F_q^12 = F_q[w]/(w^12 + 2) and the R-ate pairing of the  *)
(* SM9 standard at SM9 parameters.  The expensive tables are zero-arity         *)
(* definitions of this (root-level, EXTENDed) module so that TLC evaluates them *)
(* once per run.                                                                *)
EXTENDS SM9
CFrob == BModPow(BetaC, BDiv(BSub(Q, N(1)), N(12)), Q)            \* w^q = CFrob * w
ASSUME BMod(BSub(Q, N(1)), N(12)) = <<>>
X0 == INSTANCE Ext12 WITH FAdd <- FQ!FAdd, FSub <- FQ!FSub, FMul <- FQ!FMul, FInv <- FQ!FInv, FDot <- FQ!FDot,
                          FZero <- <<>>, FOne <- <<1>>, Beta <- BetaC, FrobTab <- <<>>
FrobTabC == X0!MkFrobTab(CFrob)
X == INSTANCE Ext12 WITH FAdd <- FQ!FAdd, FSub <- FQ!FSub, FMul <- FQ!FMul, FInv <- FQ!FInv, FDot <- FQ!FDot,
                         FZero <- <<>>, FOne <- <<1>>, Beta <- BetaC, FrobTab <- FrobTabC
WinvC == X!Inv(X!W)
W2invC == X!Mul(WinvC, WinvC)
W3invC == X!Mul(W2invC, WinvC)
RECURSIVE BPowNat(_, _)
BPowNat(a, n) == IF n = 0 THEN <<1>> ELSE BMul(a, BPowNat(a, n - 1))
Q12m1 == BSub(BPowNat(Q, 12), <<1>>)
ASSUME BMod(Q12m1, R) = <<>>
FinalExpC == BDiv(Q12m1, R)                                       \* (q^12 - 1)/r
FinalBitsC == BBitsMSB(FinalExpC)
PR == INSTANCE Pairing WITH FAdd <- FQ!FAdd, FSub <- FQ!FSub, FMul <- FQ!FMul, FInv <- FQ!FInv, FDot <- FQ!FDot,
                            FZero <- <<>>, FOne <- <<1>>, Beta <- BetaC, FrobTab <- FrobTabC, W2inv <- W2invC, W3inv <- W3invC,
                            Bcoef <- B1, LoopBits <- LoopBitsC, FinalBits <- FinalBitsC
\* serialisation of the standard / of the code: c2|c1|c0, each Fq4 c1|c0, each Fq2 c1|c0; tower (k,j,i) -> w^(k+3j+6i)
SerOrder == << 12, 6, 9, 3, 11, 5, 8, 2, 10, 4, 7, 1 >>
Ser12(f) == FoldLeft(LAMBDA acc, p : acc \o ToBE(f[p], 32), <<>>, SerOrder)
\* inverse of Ser12 on 384 bytes (limbs taken as integers, not reduced)
Limb(b, j) == FromBE(SubSeq(b, 32 * (j - 1) + 1, 32 * j))
Deser12(b) == << Limb(b, 12), Limb(b, 8), Limb(b, 4), Limb(b, 10), Limb(b, 6), Limb(b, 2),
                 Limb(b, 11), Limb(b, 7), Limb(b, 3), Limb(b, 9), Limb(b, 5), Limb(b, 1) >>
ASSUME \A i \in 1..12 : SerOrder[ << 12, 8, 4, 10, 6, 2, 11, 7, 3, 9, 5, 1 >>[i] ] = i
\* the signed-digit expansion of 6t+2 used by the code's first Miller loop (2 stands for -1; an implicit leading 1 precedes it)
LoopDigitsC == << 0,0,1,0,0,0,0,0,0,0,0,0,0,0,0,0,0,0,0,0,0,0,0,0,0,0,0,0,0,0,0,0,0,0,0,0,0,0,0,1,0,0,0,0,1,0,1,1,0,0,0,2,0,2,0,0,1,0,1,0,0,0,0,2,0 >>
ASSUME FoldLeft(LAMBDA acc, d : IF d = 2 THEN BSub(BAdd(acc, acc), <<1>>) ELSE BAdd(BAdd(acc, acc), N(d)), <<1>>, LoopDigitsC) = LoopN
HalfQ == FQ!FInv(<<2>>)
Pi1C == CFrob                                                      \* w^(q-1): the twist Frobenius scales z by it
Pi2C == FQ!FMul(CFrob, CFrob)
MA == INSTANCE MillerAlgo WITH FAdd <- FQ!FAdd, FSub <- FQ!FSub, FMul <- FQ!FMul, FInv <- FQ!FInv, FZero <- <<>>, FOne <- <<1>>,
                               A2 <- E2!Add, S2 <- E2!Sub, M2 <- E2!Mul, I2 <- E2!Inv, Z2 <- E2!Zero, O2 <- E2!One,
                               XMul <- X!Mul, XInv <- X!Inv, XOne <- X!One,
                               Half <- HalfQ, Pi1 <- Pi1C, Pi2 <- Pi2C, LoopDigits <- LoopDigitsC, LoopBits <- LoopBitsC
Pair(P, Qt) == PR!Pair(P, Qt)
GT == PR!Pair(P1, P2)                                             \* e(P1, P2), computed once
GtPowN(g, k) == X!Pow(g, BBitsMSB(k))
PairDlog(a, b) == GtPowN(GT, BMulMod(a, b, R))                    \* e(aP1, bP2) by bilinearity
=============================================================================
