-------------------------------- MODULE Curve --------------------------------
(* Affine short-Weierstrass law y^2 = x^3 + B over a field given by operators. *)
(* A point is either Inf or a pair <<x, y>>.                                    *)
LOCAL INSTANCE Naturals
LOCAL INSTANCE Sequences
LOCAL INSTANCE SequencesExt
CONSTANTS FAdd(_, _), FSub(_, _), FMul(_, _), FInv(_), FZero, B
Inf == <<>>    \* the point at infinity; finite points are pairs
FDbl(a) == FAdd(a, a)
FTpl(a) == FAdd(FDbl(a), a)
FSqr(a) == FMul(a, a)
FNeg(a) == FSub(FZero, a)
OnCurve(P) == P = Inf \/ FSqr(P[2]) = FAdd(FMul(FSqr(P[1]), P[1]), B)
Neg(P) == IF P = Inf THEN Inf ELSE <<P[1], FNeg(P[2])>>
\* slope of the chord/tangent through P and Q (both finite, Q # -P)
Slope(P, Q) == IF P[1] = Q[1] THEN FMul(FTpl(FSqr(P[1])), FInv(FDbl(P[2])))
               ELSE FMul(FSub(Q[2], P[2]), FInv(FSub(Q[1], P[1])))
Add(P, Q) ==
    IF P = Inf THEN Q ELSE IF Q = Inf THEN P
    ELSE IF P[1] = Q[1] /\ FAdd(P[2], Q[2]) = FZero THEN Inf
    ELSE LET l  == Slope(P, Q)
             x3 == FSub(FSub(FSqr(l), P[1]), Q[1])
         IN <<x3, FSub(FMul(l, FSub(P[1], x3)), P[2])>>
Dbl(P) == Add(P, P)
\* k is a sequence of bits, most significant first (BigNat!BBitsMSB)
Mul(bits, P) == FoldLeft(LAMBDA acc, bit : IF bit = 1 THEN Add(Dbl(acc), P) ELSE Dbl(acc), Inf, bits)
=============================================================================
