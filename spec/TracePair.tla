------------------------------ MODULE TracePair ------------------------------
(* Event checks, part 3: Gt and the pairing entry points (C01, C02, C03, C11). *)
EXTENDS TraceGroup
GtCanon(b) == IsByteStr(b, 384) /\ LimbsBelowQ(b)
OneBytes == Ser12(X!One)
D12(b) == Deser12(b)
\* ---------------------------------------------------------------- C11
ChkGtOne(e) == e.out = OneBytes
ChkGtMul(e) == GtCanon(e.a) /\ GtCanon(e.b) /\ GtCanon(e.out) /\ e.out = Ser12(X!Mul(D12(e.a), D12(e.b)))
ChkGtEq(e) == GtCanon(e.a) /\ GtCanon(e.b) /\ e.out = (e.a = e.b) /\ e.refl = TRUE
ChkGtPow(e) == GtCanon(e.a) /\ Canon("Fr", e.k) /\ GtCanon(e.out) /\ e.out = Ser12(GtPowN(D12(e.a), FromBE(e.k)))
ChkGtInv(e) == GtCanon(e.a) /\ IsSome(e.out) /\ GtCanon(e.out.v) /\ X!Mul(D12(e.out.v), D12(e.a)) = X!One
                /\ e.out.v = Ser12(X!Inv(D12(e.a)))
ChkGtLaws(e) ==
    /\ \A x \in {e.g, e.h, e.gh, e.hg, e.g1, e.ginv_g, e.gs_gt, e.gspt, e.gs_t, e.gst, e.gh_s, e.gs_hs, e.g0, e.g1p, e.grm1_g} : GtCanon(x)
    /\ e.gh = Ser12(X!Mul(D12(e.g), D12(e.h))) /\ e.hg = e.gh /\ e.g1 = e.g /\ e.ginv_g = OneBytes
    /\ e.gs_gt = e.gspt /\ e.gs_t = e.gst /\ e.gh_s = e.gs_hs /\ e.g0 = OneBytes /\ e.g1p = e.g /\ e.grm1_g = OneBytes
    /\ e.gspt = Ser12(GtPowN(D12(e.g), BAddMod(FromBE(e.s), FromBE(e.t), R)))
\* ---------------------------------------------------------------- C01 / C02 / C03
\* a pairing event: the operands must denote ka*P1 and kb*P2 (textbook scalar multiplication); the result must be
\* e(P1,P2)^(ka*kb), and for "full" events the byte-exact value of the naive textbook R-ate pairing of the abstract points
ChkPair(e) ==
    /\ e.v \in {"pairing", "fast", "prepared"}
    /\ JacOK("G1", e.p) /\ JacOK("G2", e.q) /\ Canon("Fr", e.ka) /\ Canon("Fr", e.kb) /\ GtCanon(e.out)
    /\ LET P == AbsJ("G1", e.p)  Qp == AbsJ("G2", e.q)
       IN IF "nodl" \in DOMAIN e /\ e.nodl
          THEN Qp = Dl("G2", e.kb) /\ P # Inf /\ e.out = Ser12(Pair(P, Qp))      \* no logarithm known for P: the textbook pairing only
          ELSE /\ P = Dl("G1", e.ka) /\ Qp = Dl("G2", e.kb)
               /\ e.out = Ser12(PairDlog(FromBE(e.ka), FromBE(e.kb)))
               /\ (e.full => e.out = Ser12(Pair(P, Qp)))
ChkPairLaws(e) ==
    LET nodl == "nodl" \in DOMAIN e /\ e.nodl          \* P is a crafted representative of a point with unknown discrete logarithm
    IN
    /\ JacOK("G1", e.p) /\ JacOK("G2", e.q) /\ JacOK("G1", e.p2) /\ JacOK("G2", e.q2)
    /\ \A x \in {e.e_pq, e.e_p2q, e.e_pq2, e.e_pp2_q, e.e_p_qq2, e.mul_p, e.mul_q, e.e_cp_dq, e.e_pow, e.erm1_e} : GtCanon(x)
    /\ (nodl \/ AbsJ("G1", e.p) = Dl("G1", e.ka)) /\ AbsJ("G2", e.q) = Dl("G2", e.kb)
    /\ AbsJ("G1", e.p2) = Dl("G1", e.kc) /\ AbsJ("G2", e.q2) = Dl("G2", e.kd)
    /\ (IF nodl THEN ("full" \in DOMAIN e /\ e.full => e.e_pq = Ser12(Pair(AbsJ("G1", e.p), AbsJ("G2", e.q))))
                ELSE e.e_pq = Ser12(PairDlog(FromBE(e.ka), FromBE(e.kb))))
    /\ e.e_p2q = Ser12(PairDlog(FromBE(e.kc), FromBE(e.kb)))
    /\ e.mul_p = Ser12(X!Mul(D12(e.e_pq), D12(e.e_p2q))) /\ e.e_pp2_q = e.mul_p            \* e(P+P',Q) = e(P,Q) e(P',Q)
    /\ e.mul_q = Ser12(X!Mul(D12(e.e_pq), D12(e.e_pq2))) /\ e.e_p_qq2 = e.mul_q            \* e(P,Q+Q') = e(P,Q) e(P,Q')
    /\ (nodl \/ e.e_pp2_q = Ser12(PairDlog(BAddMod(FromBE(e.ka), FromBE(e.kc), R), FromBE(e.kb))))
    /\ (nodl \/ e.e_p_qq2 = Ser12(PairDlog(FromBE(e.ka), BAddMod(FromBE(e.kb), FromBE(e.kd), R))))
    /\ e.e_cp_dq = e.e_pow                                                                   \* e(cP, dQ) = e(P,Q)^(cd)
    /\ e.e_pow = Ser12(GtPowN(D12(e.e_pq), BMulMod(FromBE(e.kc), FromBE(e.kd), R)))
    /\ e.erm1_e = OneBytes                                                                   \* g^(r-1) * g = 1
ChkPrepReuse(e) ==
    /\ JacOK("G2", e.q) /\ AbsJ("G2", e.q) = Dl("G2", e.kb)
    /\ LET n == Len(e.ps)
       IN /\ Len(e.kas) = n /\ Len(e.first) = n /\ Len(e.second_rev) = n /\ Len(e.clone) = n
          /\ \A i \in 1..n :
                /\ JacOK("G1", e.ps[i]) /\ AbsJ("G1", e.ps[i]) = Dl("G1", e.kas[i])
                /\ e.first[i] = Ser12(PairDlog(FromBE(e.kas[i]), FromBE(e.kb)))
                /\ e.second_rev[i] = e.first[n + 1 - i] /\ e.clone[i] = e.first[i]
=============================================================================
