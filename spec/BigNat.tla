------------------------------- MODULE BigNat -------------------------------
(***************************************************************************)
(* Unbounded natural numbers for TLC (whose integers are 32-bit).          *)
(* A BigNat is a tuple of base-256 digits, least significant first, with   *)
(* no trailing zero digit; zero is <<>>.  Canonical form makes TLA+ "="    *)
(* numeric equality.  Every operator has a pure TLA+ definition (suffix    *)
(* Def); the un-suffixed names are what specifications use and what the    *)
(* Java class BigNat (java.math.BigInteger) overrides for speed.           *)
(***************************************************************************)
LOCAL INSTANCE Naturals
LOCAL INSTANCE Sequences
LOCAL INSTANCE SequencesExt

LOCAL Max2(x, y) == IF x > y THEN x ELSE y
LOCAL Dig(a, i) == IF i <= Len(a) THEN a[i] ELSE 0

IsBigNat(a) == /\ DOMAIN a = 1..Len(a)
               /\ \A i \in 1..Len(a) : a[i] \in 0..255
               /\ (Len(a) > 0 => a[Len(a)] # 0)

RECURSIVE BNorm(_)
BNorm(s) == IF s = <<>> THEN s
            ELSE IF s[Len(s)] = 0 THEN BNorm(SubSeq(s, 1, Len(s) - 1)) ELSE s

RECURSIVE BFromNat(_)
BFromNat(n) == IF n = 0 THEN <<>> ELSE <<n % 256>> \o BFromNat(n \div 256)
RECURSIVE BToNat(_)
BToNat(a) == IF a = <<>> THEN 0 ELSE a[1] + 256 * BToNat(Tail(a))

FromBE(bytes) == BNorm(Reverse(bytes))
ToBE(a, len)  == Reverse(a \o [i \in 1..(len - Len(a)) |-> 0])

(* ---------------------------- comparison ------------------------------- *)
RECURSIVE LessFrom(_, _, _)
LOCAL LessFrom(a, b, i) == IF i = 0 THEN FALSE
                           ELSE IF a[i] # b[i] THEN a[i] < b[i] ELSE LessFrom(a, b, i - 1)
BLessDef(a, b) == IF Len(a) # Len(b) THEN Len(a) < Len(b) ELSE LessFrom(a, b, Len(a))
BLess(a, b) == BLessDef(a, b)
BLeq(a, b)  == a = b \/ BLess(a, b)

(* ------------------------------ addition ------------------------------- *)
RECURSIVE AddC(_, _, _, _, _)
LOCAL AddC(a, b, i, n, c) ==
    IF i > n THEN (IF c = 0 THEN <<>> ELSE <<c>>)
    ELSE LET t == Dig(a, i) + Dig(b, i) + c
         IN <<t % 256>> \o AddC(a, b, i + 1, n, t \div 256)
BAddDef(a, b) == AddC(a, b, 1, Max2(Len(a), Len(b)), 0)
BAdd(a, b) == BAddDef(a, b)

(* --------------------- subtraction (requires a >= b) ------------------- *)
RECURSIVE SubB(_, _, _, _, _)
LOCAL SubB(a, b, i, n, br) ==
    IF i > n THEN <<>>
    ELSE LET t == Dig(a, i) + 256 - Dig(b, i) - br
         IN <<t % 256>> \o SubB(a, b, i + 1, n, IF t < 256 THEN 1 ELSE 0)
BSubDef(a, b) == BNorm(SubB(a, b, 1, Len(a), 0))
BSub(a, b) == BSubDef(a, b)

(* ---------------------------- multiplication --------------------------- *)
RECURSIVE ColSum(_, _, _, _, _)
LOCAL ColSum(a, b, k, i, hi) == IF i > hi THEN 0 ELSE a[i] * b[k + 1 - i] + ColSum(a, b, k, i + 1, hi)
LOCAL Col(a, b, k) == ColSum(a, b, k, Max2(1, k + 1 - Len(b)), IF k < Len(a) THEN k ELSE Len(a))
RECURSIVE Carry(_, _, _)
LOCAL Carry(cols, i, c) ==
    IF i > Len(cols) THEN (IF c = 0 THEN <<>> ELSE <<c % 256>> \o Carry(cols, i, c \div 256))
    ELSE LET t == cols[i] + c IN <<t % 256>> \o Carry(cols, i + 1, t \div 256)
\* column sums stay below 2^31 for operands up to 32767 digits
BMulDef(a, b) == IF a = <<>> \/ b = <<>> THEN <<>>
                 ELSE BNorm(Carry([k \in 1..(Len(a) + Len(b) - 1) |-> Col(a, b, k)], 1, 0))
BMul(a, b) == BMulDef(a, b)

(* ------------------------------- bits ---------------------------------- *)
LOCAL BitLen8(d) == IF d >= 128 THEN 8 ELSE IF d >= 64 THEN 7 ELSE IF d >= 32 THEN 6 ELSE IF d >= 16 THEN 5
                    ELSE IF d >= 8 THEN 4 ELSE IF d >= 4 THEN 3 ELSE IF d >= 2 THEN 2 ELSE IF d >= 1 THEN 1 ELSE 0
BBitLen(a) == IF a = <<>> THEN 0 ELSE 8 * (Len(a) - 1) + BitLen8(a[Len(a)])
BBit(a, i) == (Dig(a, (i \div 8) + 1) \div (2 ^ (i % 8))) % 2          \* bit i, i = 0 is the least significant
BBitsMSBDef(a) == [i \in 1..BBitLen(a) |-> BBit(a, BBitLen(a) - i)]    \* most significant first, no leading zero
BBitsMSB(a) == BBitsMSBDef(a)
BIsOdd(a) == a # <<>> /\ a[1] % 2 = 1

(* ------------------- division with remainder (m # 0) ------------------- *)
(* Schoolbook long division in base 256: bring down one digit of a at a time *)
(* (most significant first); the quotient digit is the largest d in 0..255   *)
(* with d*m <= rem, found by bisection.                                      *)
RECURSIVE MulSmallC(_, _, _, _)
LOCAL MulSmallC(m, d, i, c) == IF i > Len(m) THEN (IF c = 0 THEN <<>> ELSE <<c>>)
                               ELSE LET t == m[i] * d + c IN <<t % 256>> \o MulSmallC(m, d, i + 1, t \div 256)
LOCAL MulSmall(m, d) == IF d = 0 THEN <<>> ELSE MulSmallC(m, d, 1, 0)
RECURSIVE QDigit(_, _, _, _)
LOCAL QDigit(rem, m, lo, hi) ==      \* invariant: lo*m <= rem < (hi+1)*m
    IF lo = hi THEN lo
    ELSE LET mid == (lo + hi + 1) \div 2
         IN IF BLessDef(rem, MulSmall(m, mid)) THEN QDigit(rem, m, lo, mid - 1) ELSE QDigit(rem, m, mid, hi)
RECURSIVE DivLoop(_, _, _, _, _)
LOCAL DivLoop(a, m, i, q, r) ==      \* q collects quotient digits least significant first
    IF i = 0 THEN <<BNorm(q), r>>
    ELSE LET r2 == BNorm(<<a[i]>> \o r)                 \* r*256 + a[i]
             d  == QDigit(r2, m, 0, 255)
         IN DivLoop(a, m, i - 1, <<d>> \o q, BSubDef(r2, MulSmall(m, d)))
BDivModDef(a, m) == DivLoop(a, m, Len(a), <<>>, <<>>)
BDivDef(a, m) == BDivModDef(a, m)[1]
BModDef(a, m) == BDivModDef(a, m)[2]
BDiv(a, m) == BDivDef(a, m)
BMod(a, m) == BModDef(a, m)

(* ------------------ modular add / sub / mul (a, b < m) ----------------- *)
BAddModDef(a, b, m) == LET s == BAddDef(a, b) IN IF BLessDef(s, m) THEN s ELSE BSubDef(s, m)
BSubModDef(a, b, m) == IF BLessDef(a, b) THEN BSubDef(BAddDef(a, m), b) ELSE BSubDef(a, b)
BMulModDef(a, b, m) == BModDef(BMulDef(a, b), m)
BAddMod(a, b, m) == BAddModDef(a, b, m)
BSubMod(a, b, m) == BSubModDef(a, b, m)
BMulMod(a, b, m) == BMulModDef(a, b, m)

(* ----------------------- modular exponentiation ------------------------ *)
RECURSIVE PowLoop(_, _, _, _, _)
LOCAL PowLoop(a, e, m, i, acc) ==
    IF i = 0 THEN acc
    ELSE LET s == BMod(BMul(acc, acc), m)
         IN PowLoop(a, e, m, i - 1, IF BBit(e, i - 1) = 1 THEN BMod(BMul(s, a), m) ELSE s)
BModPowDef(a, e, m) == PowLoop(BMod(a, m), e, m, BBitLen(e), BMod(<<1>>, m))
BModPow(a, e, m) == BModPowDef(a, e, m)

\* inverse modulo a PRIME p of a with a mod p # 0 (Fermat)
BModInvPrimeDef(a, p) == BModPowDef(a, BSubDef(p, <<2>>), p)
BModInvPrime(a, p) == BModInvPrimeDef(a, p)

(* --------------------- dot product modulo m ---------------------------- *)
RECURSIVE DotAcc(_, _, _, _)
LOCAL DotAcc(as, bs, i, acc) == IF i > Len(as) THEN acc ELSE DotAcc(as, bs, i + 1, BAdd(acc, BMul(as[i], bs[i])))
BDotDef(as, bs, m) == BMod(DotAcc(as, bs, 1, <<>>), m)
BDot(as, bs, m) == BDotDef(as, bs, m)
=============================================================================
