------------------------------- MODULE GenTable -------------------------------
(* Abstraction table for the replayer (spec -> implementation): for every      *)
(* small discrete logarithm k in -KT..KT the canonical raw encodings of k*P1   *)
(* and k*P2 and the 384 bytes of e(P1,P2)^k, all computed by TLC from the       *)
(* Level-A specification (textbook scalar multiplication and pairing).          *)
EXTENDS SM9Pair, Json, IOUtils, Integers
KT == CHOOSE n \in 1..512 : ToString(n) = IOEnv.KT
RECURSIVE Mults1(_, _, _)     \* <<1*P, 2*P, ..., n*P>> by repeated textbook addition
Mults1(acc, cur, n) == IF n = 0 THEN acc ELSE Mults1(Append(acc, cur), C1!Add(cur, P1), n - 1)
RECURSIVE Mults2(_, _, _)
Mults2(acc, cur, n) == IF n = 0 THEN acc ELSE Mults2(Append(acc, cur), C2!Add(cur, P2), n - 1)
RECURSIVE PowsT(_, _, _)
PowsT(acc, cur, n) == IF n = 0 THEN acc ELSE PowsT(Append(acc, cur), X!Mul(cur, GT), n - 1)
VARIABLE done
Init == done = FALSE
Next == ~done /\ done' = TRUE /\
        LET m1 == Mults1(<<>>, P1, KT)  m2 == Mults2(<<>>, P2, KT)  pt == PowsT(<<>>, GT, KT)
            row(k) == LET a == IF k < 0 THEN -k ELSE k
                      IN IF k = 0 THEN [k |-> 0, g1 |-> <<>>, g2 |-> <<>>, gt |-> Ser12(X!One)]
                         ELSE [k |-> k,
                               g1 |-> Enc("G1", IF k < 0 THEN C1!Neg(m1[a]) ELSE m1[a], "raw"),
                               g2 |-> Enc("G2", IF k < 0 THEN C2!Neg(m2[a]) ELSE m2[a], "raw"),
                               gt |-> Ser12(IF k < 0 THEN X!Inv(pt[a]) ELSE pt[a])]
        IN /\ m1[KT] = G1Mul(N(KT), P1) /\ m2[KT] = G2Mul(N(KT), P2) /\ pt[KT] = GtPowN(GT, N(KT))   \* repeated addition = double-and-add
           /\ JsonSerialize(IOEnv.OUT, [i \in 1..(2 * KT + 1) |-> row(i - KT - 1)])
           /\ PrintT(<<"GENTABLE", KT>>)
=============================================================================
