------------------------------ MODULE MillerAlgo ------------------------------
(* The two Miller loops of src/pairings.rs, transcribed ONCE over fields given  *)
(* by operator parameters:                                                      *)
(*   MillerG2   G2::miller_loop: Jacobian accumulator T, signed digits of 6t+2, *)
(*              numerator / denominator line functions (eval_g_tangent,          *)
(*              eval_g_line), the two Frobenius steps through point_pi1 /        *)
(*              point_pi2, one final inversion;                                  *)
(*   Prepare / MillerPrepared   G2Prepared::from (g_tangent, g_line,             *)
(*              q_power_frobenius) and G2Prepared::miller_loop (binary digits of *)
(*              6t+2, sparse line elements built by get_fq12).                   *)
(* F_q^12 elements are 12-tuples over F_q (coefficient of w^(i-1)); the tower    *)
(* position (k, j, i) of the code is w^(k + 3j + 6i).  The F_q^12 arithmetic     *)
(* itself (X!Mul ...) is the textbook one: this module transcribes the LOOP      *)
(* STRUCTURE and the LINE FUNCTIONS, not the tower formulas.                     *)
(* Instantiated on the toy BN curve (native integers) by MC_MillerToy, where it  *)
(* is compared with the textbook pairing, and at SM9 size by the trace           *)
(* specification, where it is compared with the code's exact Miller values.      *)
LOCAL INSTANCE Naturals
LOCAL INSTANCE Sequences
LOCAL INSTANCE SequencesExt
CONSTANTS FAdd(_, _), FSub(_, _), FMul(_, _), FInv(_), FZero, FOne,      \* F_q
          A2(_, _), S2(_, _), M2(_, _), I2(_), Z2, O2,                   \* F_q^2 = <<c0, c1>>: add, sub, mul, inverse, zero, one
          XMul(_, _), XInv(_), XOne,                                      \* F_q^12 (12-tuples)
          Half,                                                           \* 1/2 in F_q
          Pi1, Pi2,                                                       \* the Frobenius constants SM9_PI1, SM9_PI2 (elements of F_q)
          LoopDigits,                                                     \* SM9_LOOP_COUNT: signed digits (2 = -1) after the implicit leading 1
          LoopBits                                                        \* bits of 6t+2, most significant first (leading 1 included)
N2(x) == S2(Z2, x)
Sq2(x) == M2(x, x)
Sc2(x, s) == << FMul(x[1], s), FMul(x[2], s) >>                          \* Fq2::scale
Tpl2(x) == A2(A2(x, x), x)
Div2(x) == Sc2(x, Half)
Conj2(x) == << x[1], FSub(FZero, x[2]) >>                                 \* unitary_inverse
MulNR2(x) == << FSub(FZero, FAdd(x[2], x[2])), x[1] >>                    \* mul_by_nonresidue: (c0 + c1 u) * u, u^2 = -2
JA == INSTANCE JacAlgo WITH FAdd <- A2, FSub <- S2, FMul <- M2, FInv <- I2, FZero <- Z2, FOne <- O2
\* an F_q^2 element c placed at w^k
At(c, k) == [i \in 1..12 |-> IF i = k + 1 THEN c[1] ELSE IF i = k + 7 THEN c[2] ELSE FZero]
T12(f) == << f[1], f[2], f[3], f[4], f[5], f[6], f[7], f[8], f[9], f[10], f[11], f[12] >>
XAdd3(a, b, c) == T12([i \in 1..12 |-> FAdd(FAdd(a[i], b[i]), c[i])])
\* num = Fq4(a0, a1) + Fq4(a4, 0) w^2 = a0 + a1 w^3 + a4 w^2;  den = Fq4(0, b1) = b1 w^3
LineEl(a0, a1, a4) == XAdd3(At(a0, 0), At(a1, 3), At(a4, 2))
DenEl(b1) == T12(At(b1, 3))
XSqr(a) == XMul(a, a)
\* ---------------------------------------------------------------- G2::miller_loop
EvalTangent(Tt, P) ==           \* Tt = <<x, y, z>> over F_q^2, P = <<px, py>> over F_q; returns <<num, den>>
    LET t0 == Sq2(Tt[3])  t1 == M2(t0, Tt[3])  b1 == M2(t1, Tt[2])
        a1 == N2(Sc2(b1, P[2]))
        x2 == Sq2(Tt[1])
        a4 == Div2(Tpl2(Sc2(M2(t0, x2), P[1])))
        a0 == S2(Sq2(Tt[2]), Div2(Tpl2(M2(x2, Tt[1]))))
    IN << LineEl(a0, a1, a4), DenEl(b1) >>
EvalLine(Tt, Qp, P) ==          \* line through T and Q' (both Jacobian), evaluated at P
    LET t0a == Sq2(Qp[3])  t1a == M2(t0a, Tt[1])  t0b == M2(t0a, Qp[3])
        t2a == Sq2(Tt[3])  t3a == M2(t2a, Qp[1])  t2b == M2(M2(t2a, Tt[3]), Qp[2])
        t1b == M2(M2(S2(t1a, t3a), Tt[3]), Qp[3])
        b1 == M2(t1b, t0b)
        t1c == M2(t1b, Qp[2])
        t3b == S2(M2(t0b, Tt[2]), t2b)
        a4 == Sc2(M2(t0b, t3b), P[1])
        a0 == S2(t1c, M2(M2(t3b, Qp[1]), Qp[3]))
        a1 == N2(Sc2(b1, P[2]))
    IN << LineEl(a0, a1, a4), DenEl(b1) >>
PointPi1(Q) == << Conj2(Q[1]), Conj2(Q[2]), Sc2(Conj2(Q[3]), Pi1) >>
PointPi2(Q) == << Q[1], Q[2], Sc2(Q[3], Pi2) >>
\* loop state <<T, fnum, fden>>
GStep(st, g) == << st[1], XMul(st[2], g[1]), XMul(st[3], g[2]) >>
MillerG2(Q, P) ==               \* Q = <<x, y, one>> affine, P = <<px, py>>
    LET q1 == JA!NegJ(Q)
        body(st, d) ==
            LET s1 == GStep(<< st[1], XSqr(st[2]), XSqr(st[3]) >>, EvalTangent(st[1], P))
                s2 == << JA!Double(s1[1]), s1[2], s1[3] >>
            IN IF d = 1 THEN LET s3 == GStep(s2, EvalLine(s2[1], Q, P)) IN << JA!AddJ(s3[1], Q), s3[2], s3[3] >>
               ELSE IF d = 2 THEN LET s3 == GStep(s2, EvalLine(s2[1], q1, P)) IN << JA!AddJ(s3[1], q1), s3[2], s3[3] >>
               ELSE s2
        lp == FoldLeft(body, << Q, XOne, XOne >>, LoopDigits)
        p1 == PointPi1(Q)
        p2 == JA!NegJ(PointPi2(Q))
        s4 == GStep(lp, EvalLine(lp[1], p1, P))
        s5 == << JA!AddJ(s4[1], p1), s4[2], s4[3] >>
        s6 == GStep(s5, EvalLine(s5[1], p2, P))
    IN XMul(s6[2], XInv(s6[3]))
\* ---------------------------------------------------------------- G2Prepared
QPowerFrob(Q, f) ==             \* q_power_frobenius(f), f in F_q^2
    LET r == I2(f)  w == Sq2(r) IN << M2(Conj2(Q[1]), w), M2(M2(Conj2(Q[2]), w), r), Conj2(Q[3]) >>
GLine(Tt, Q) ==                 \* returns <<T + Q, <<c0, c1, c2>> >>
    LET lam == Sq2(Tt[3])
        c2 == S2(Tt[2], M2(M2(lam, Tt[3]), Q[2]))
        T1 == JA!AddJ(Tt, Q)
        c0 == T1[3]
        c1 == S2(M2(N2(c2), Q[1]), M2(c0, Q[2]))
    IN << T1, << c0, c1, c2 >> >>
GTangent(Tt) ==
    LET lam == Tpl2(Sq2(Tt[1]))  extra == A2(Sq2(Tt[2]), Sq2(Tt[2]))  zz == Sq2(Tt[3])
        c1 == S2(M2(lam, Tt[1]), extra)
        c2 == N2(M2(zz, lam))
        T1 == JA!Double(Tt)
        c0 == M2(T1[3], zz)
    IN << T1, << c0, c1, c2 >> >>
Prepare(Q) ==                   \* the coefficient list of G2Prepared::from(Q), Q affine
    LET body(st, bit) ==        \* st = <<T, coeffs>>
            LET t == GTangent(st[1])
                c1 == Append(st[2], t[2])
            IN IF bit = 1 THEN LET l == GLine(t[1], Q) IN << l[1], Append(c1, l[2]) >> ELSE << t[1], c1 >>
        lp == FoldLeft(body, << Q, <<>> >>, Tail(LoopBits))
        frob == << Pi1, FZero >>
        ka == QPowerFrob(Q, frob)
        l1 == GLine(lp[1], ka)
        kb == JA!NegJ(QPowerFrob(ka, frob))
        l2 == GLine(l1[1], kb)
    IN Append(Append(lp[2], l1[2]), l2[2])
GetFq12(c, t1, x) == XAdd3(At(M2(c[1], t1), 0), At(c[2], 3), At(Sc2(c[3], x), 5))     \* Fq4(c0 t1, c1) + Fq4(0, c2 x) w^2
MillerPrepared(coeffs, P) ==
    LET t1 == MulNR2(<< P[2], FZero >>)
        body(st, bit) ==        \* st = <<f, idx>>
            LET f1 == XMul(XSqr(st[1]), GetFq12(coeffs[st[2]], t1, P[1]))
            IN IF bit = 1 THEN << XMul(f1, GetFq12(coeffs[st[2] + 1], t1, P[1])), st[2] + 2 >> ELSE << f1, st[2] + 1 >>
        lp == FoldLeft(body, << XOne, 1 >>, Tail(LoopBits))
    IN XMul(XMul(lp[1], GetFq12(coeffs[lp[2]], t1, P[1])), GetFq12(coeffs[lp[2] + 1], t1, P[1]))
=============================================================================
