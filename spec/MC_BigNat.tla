----------------------------- MODULE MC_BigNat -----------------------------
EXTENDS BigNat, Naturals, Sequences, TLC, FiniteSets
RECURSIVE RandDigits(_, _)
RandDigits(s, n) == IF n = 0 THEN <<>> ELSE LET s2 == (s * 75 + 74) % 65537 IN <<s2 % 256>> \o RandDigits(s2, n - 1)
Rand(seed, n) == BNorm(RandDigits(seed, n))
Ones(n) == [i \in 1..n |-> 255]
Pow2(n) == [i \in 1..(n+1) |-> IF i = n + 1 THEN 1 ELSE 0]      \* 256^n
Pool == { <<>>, <<1>>, <<2>>, <<255>>, <<0,1>>, Ones(2), Ones(31), Ones(32), Ones(33), Ones(64),
          Pow2(31), Pow2(32), Pow2(63), BSubDef(Pow2(32), <<1>>) }
        \cup { Rand(s, n) : s \in {1, 7, 4242}, n \in {1, 5, 31, 32, 33, 48, 64} }
Mods == { <<2>>, <<3>>, <<251>>, <<1,1>>, Rand(99, 32), Rand(5, 31), Ones(32), Pow2(32) } \ { <<>> }
Primes == { <<251>>, <<13>>, <<241, 255>> }  \* 251, 13, 65521
VARIABLE done
Init == done = FALSE
Next == done = FALSE /\ done' = TRUE
CheckPair(a, b) ==
    /\ IsBigNat(a) /\ IsBigNat(b)
    /\ BLess(a, b) = BLessDef(a, b)
    /\ BAdd(a, b) = BAddDef(a, b) /\ IsBigNat(BAdd(a, b))
    /\ BMul(a, b) = BMulDef(a, b)
    /\ (~BLessDef(a, b) => BSub(a, b) = BSubDef(a, b))
    /\ BAddDef(BSubDef(BAddDef(a, b), b), <<>>) = a
CheckModOps(a, b, m) == LET x == BModDef(a, m)  y == BModDef(b, m)
                        IN /\ BAddMod(x, y, m) = BAddModDef(x, y, m) /\ BAddMod(x, y, m) = BModDef(BAddDef(x, y), m)
                           /\ BSubMod(x, y, m) = BSubModDef(x, y, m) /\ BAddModDef(BSubModDef(x, y, m), y, m) = x
                           /\ BMulMod(x, y, m) = BMulModDef(x, y, m)
CheckMod(a, m) ==
    /\ BDiv(a, m) = BDivDef(a, m) /\ BMod(a, m) = BModDef(a, m)
    /\ BAddDef(BMulDef(BDivDef(a, m), m), BModDef(a, m)) = a /\ BLessDef(BModDef(a, m), m)
CheckPow(a, e, m) == BModPow(a, e, m) = BModPowDef(a, e, m)
CheckInv(a, p) == BModDef(a, p) # <<>> =>
    /\ BModInvPrime(a, p) = BModInvPrimeDef(a, p)
    /\ BModDef(BMulDef(BModInvPrimeDef(a, p), a), p) = <<1>>
Inv == done =>
    /\ \A a \in Pool, b \in Pool : CheckPair(a, b)
    /\ \A a \in Pool, m \in Mods : CheckMod(a, m)
    /\ \A a \in {Rand(3, 32), Ones(32), <<>>, <<1>>, Rand(7, 64), Pow2(32)}, b \in {Rand(4, 32), Ones(31), <<>>, <<2>>, Rand(1, 48)}, m \in Mods : CheckModOps(a, b, m)
    /\ \A a \in {Rand(3, 32), Ones(32), <<>>, <<1>>}, e \in {<<>>, <<1>>, <<2>>, Rand(8, 4), Ones(3)}, m \in Mods : CheckPow(a, e, m)
    /\ \A a \in Pool, p \in Primes : CheckInv(a, p)
    /\ \A a \in Pool : BBitsMSB(a) = BBitsMSBDef(a) /\ FromBE(ToBE(a, 70)) = a
    /\ BDot(<<Rand(1,32), Rand(2,32), <<>> >>, <<Rand(3,32), Ones(32), <<5>> >>, Rand(99,32))
         = BDotDef(<<Rand(1,32), Rand(2,32), <<>> >>, <<Rand(3,32), Ones(32), <<5>> >>, Rand(99,32))
    /\ BToNat(BFromNat(123456789)) = 123456789
    /\ PrintT(<<"MC_BigNat ok", Cardinality(Pool)>>)
=============================================================================
