CONSTANTS K = 1
KG = 2
Scalars <- MCScalars
INIT Init
NEXT Next
INVARIANT TypeOK
CHECK_DEADLOCK FALSE
