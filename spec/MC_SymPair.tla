---- MODULE MC_SymPair ----
EXTENDS SymPair
MCScalars == {0, 1, 2, -1}
====
