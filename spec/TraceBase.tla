------------------------------ MODULE TraceBase ------------------------------
(* Event checks of the trace specification, part 1: prime fields, Fq2 and      *)
(* conversions (C06, C07, C12, C13, C14).  Each Chk* operator takes one         *)
(* recorded event e (a record read from the ndjson trace) and is TRUE iff the   *)
(* recorded outputs are the ones the Level-A specification computes from the    *)
(* recorded inputs.                                                             *)
EXTENDS SM9Pair
IsByteStr(b, n) == Len(b) = n /\ \A i \in 1..n : b[i] \in 0..255
IsSome(o) == o.t = "some"
IsNone(o) == o.t = "none"
\* option of the implementation vs value of the spec (None = <<"none">>)
OptIs(o, v, n) == IF v = None THEN IsNone(o) ELSE IsSome(o) /\ IsByteStr(o.v, n) /\ o.v = ToBE(v, n)
\* ---------------------------------------------------------------- Fq / Fr
Canon(F, b) == IsByteStr(b, 32) /\ BLess(FromBE(b), FMod(F))
FBin(op, a, b, p) == CASE op = "f.add" -> BAddMod(a, b, p) [] op = "f.sub" -> BSubMod(a, b, p) [] op = "f.mul" -> BMulMod(a, b, p)
ChkFBin(e) == /\ e.form \in {"vv", "rv", "vr", "rr", "av", "ar"}
              /\ Canon(e.F, e.a) /\ Canon(e.F, e.b) /\ Canon(e.F, e.out)
              /\ FromBE(e.out) = FBin(e.op, FromBE(e.a), FromBE(e.b), FMod(e.F))
              /\ ("outz" \in DOMAIN e => e.outz = (FromBE(e.out) = <<>>) /\ e.outeq = TRUE)   \* the result behaves like the value it encodes
ChkFNeg(e) == Canon(e.F, e.a) /\ Canon(e.F, e.out)
              /\ FromBE(e.out) = (IF FromBE(e.a) = <<>> THEN <<>> ELSE BSub(FMod(e.F), FromBE(e.a)))
ChkFInv(e) == Canon(e.F, e.a) /\
              IF FromBE(e.a) = <<>> THEN IsNone(e.out)
              ELSE IsSome(e.out) /\ Canon(e.F, e.out.v) /\ FromBE(e.out.v) = BModInvPrime(FromBE(e.a), FMod(e.F))
                   /\ BMulMod(FromBE(e.out.v), FromBE(e.a), FMod(e.F)) = <<1>>
ChkFPow(e) == Canon(e.F, e.a) /\ Canon(e.F, e.e) /\ Canon(e.F, e.out)
              /\ FromBE(e.out) = BModPow(FromBE(e.a), FromBE(e.e), FMod(e.F))
ChkFIsZero(e) == Canon(e.F, e.a) /\ e.out = (FromBE(e.a) = <<>>)
ChkFIsEven(e) == Canon(e.F, e.a) /\ e.out = ~BIsOdd(FromBE(e.a))
ChkFEq(e) == Canon(e.F, e.a) /\ Canon(e.F, e.b) /\ e.out = (e.a = e.b)
\* Fq::sqrt: Some(s) => s*s = a;  None <=> a is a non-residue (Euler criterion)
ChkFSqrt(e) == Canon("Fq", e.a) /\
               IF FQ!FIsQR(FromBE(e.a)) THEN IsSome(e.out) /\ Canon("Fq", e.out.v) /\ FQ!FSqr(FromBE(e.out.v)) = FromBE(e.a)
               ELSE IsNone(e.out)
\* ---------------------------------------------------------------- input classes (coverage of the code's carry branches)
\* The classes are those of the Level-B model ImplMont, decided here at 256 bits by an independent predicate on the logged
\* operands: the Montgomery residues m = a * 2^256 mod p of the operands and the value V = (S + k p) / 2^256 that the
\* (interleaved) Montgomery reduction reaches before its final conditional subtraction.
R256 == [i \in 1..33 |-> IF i = 33 THEN 1 ELSE 0]
RModQ == BMod(R256, Q)
RModR == BMod(R256, R)
RInvQ == BModInvPrime(RModQ, Q)
RInvR == BModInvPrime(RModR, R)
MontOf(F, a) == BMulMod(a, IF F = "Fq" THEN RModQ ELSE RModR, FMod(F))
\* V = (S + k p)/2^256 with 0 <= k < 2^256: the unique value = S * 2^-256 (mod p) in [ceil(S / 2^256), ceil(S / 2^256) + p)
Redc(F, S) == LET p == FMod(F)
                  v0 == BMulMod(BMod(S, p), IF F = "Fq" THEN RInvQ ELSE RInvR, p)
                  lo == BDiv(BAdd(S, BSub(R256, <<1>>)), R256)
              IN BAdd(lo, BSubMod(v0, BMod(lo, p), p))
SopClass(V) == LET u4 == BDiv(V, R256)  r == BMod(V, R256)
               IN IF u4 = <<>> THEN "sop.u4=0"
                  ELSE IF u4 = <<1>> THEN (IF BLess(r, Q) THEN "sop.u4=1.r<q" ELSE "sop.u4=1.r>=q")
                  ELSE "sop.u4>=2"
ClsOf(e) ==
    CASE e.op = "f.mul" -> LET S == BMul(MontOf(e.F, FromBE(e.a)), MontOf(e.F, FromBE(e.b)))
                               V == Redc(e.F, S)
                               kq == BDiv(BSub(BMul(V, R256), S), FMod(e.F))          \* the Montgomery quotient: digits computed by the reduction loop
                               zd == \E i \in 1..3 : SubSeq(kq \o <<0,0,0,0,0,0,0,0,0,0,0,0,0,0,0,0,0,0,0,0,0,0,0,0,0,0,0,0,0,0,0,0>>, 8 * i + 1, 8 * i + 8) = <<0,0,0,0,0,0,0,0>>
                           IN { IF ~BLess(V, R256) THEN "mul.carry2" ELSE IF ~BLess(V, FMod(e.F)) THEN "mul.ge_p" ELSE "mul.lt_p" }
                              \cup (IF zd /\ S # <<>> THEN {"mul.qdigit0"} ELSE {})
      [] e.op = "f.add" -> LET s == BAdd(MontOf(e.F, FromBE(e.a)), MontOf(e.F, FromBE(e.b)))
                           IN { IF ~BLess(s, R256) THEN "add.carry" ELSE IF s = FMod(e.F) THEN "add.eq_p" ELSE IF ~BLess(s, FMod(e.F)) THEN "add.ge_p" ELSE "add.lt_p" }
      [] e.op = "f.sub" -> LET ma == MontOf(e.F, FromBE(e.a))  mb == MontOf(e.F, FromBE(e.b))
                           IN { IF ma = mb THEN "sub.equal" ELSE IF BLess(ma, mb) THEN "sub.borrow" ELSE "sub.plain" }
      [] e.op = "f2.mul" -> LET x == DecFq2(e.a)  y == DecFq2(e.b)
                                a0 == MontOf("Fq", x[1])  a1 == MontOf("Fq", x[2])  b0 == MontOf("Fq", y[1])  b1 == MontOf("Fq", y[2])
                                n2a1 == MontOf("Fq", FQ!FNeg(FQ!FAdd(x[2], x[2])))
                                Si == BAdd(BMul(a0, b1), BMul(a1, b0))
                                kq == BDiv(BSub(BMul(Redc("Fq", Si), R256), Si), Q)
                                zd == \E i \in 1..3 : SubSeq(kq \o <<0,0,0,0,0,0,0,0,0,0,0,0,0,0,0,0,0,0,0,0,0,0,0,0,0,0,0,0,0,0,0,0>>, 8 * i + 1, 8 * i + 8) = <<0,0,0,0,0,0,0,0>>
                            IN { SopClass(Redc("Fq", BAdd(BMul(a0, b0), BMul(n2a1, b1)))), SopClass(Redc("Fq", Si)) }
                               \cup (IF zd /\ Si # <<>> THEN {"sop.qdigit0"} ELSE {})
      [] e.op = "x.fq4.mul" ->       \* sum_of_products<4>: four coefficients, each a sum of four products (128 bytes = a11 | a10 | a01 | a00)
            LET L(bb, j) == MontOf("Fq", FromBE(SubSeq(bb, 32 * (j - 1) + 1, 32 * j)))
                NL(bb, j) == LET v == FromBE(SubSeq(bb, 32 * (j - 1) + 1, 32 * j)) IN MontOf("Fq", FQ!FNeg(FQ!FAdd(v, v)))
                a00 == L(e.a, 4)  a01 == L(e.a, 3)  a10 == L(e.a, 2)  a11 == L(e.a, 1)
                n01 == NL(e.a, 3)  n10 == NL(e.a, 2)  n11 == NL(e.a, 1)
                b00 == L(e.b, 4)  b01 == L(e.b, 3)  b10 == L(e.b, 2)  b11 == L(e.b, 1)
                S4(w, x, y, z) == BAdd(BAdd(w, x), BAdd(y, z))
                cls(S) == LET u4 == BDiv(Redc("Fq", S), R256)
                          IN IF u4 = <<>> THEN "sop4.u4=0" ELSE IF u4 = <<1>> THEN "sop4.u4=1" ELSE IF u4 = <<2>> THEN "sop4.u4=2" ELSE "sop4.u4>=3"
            IN { cls(S4(BMul(a00, b00), BMul(n01, b01), BMul(n10, b11), BMul(n11, b10))),
                 cls(S4(BMul(a00, b01), BMul(a01, b00), BMul(a10, b10), BMul(n11, b11))),
                 cls(S4(BMul(a00, b10), BMul(n01, b11), BMul(a10, b00), BMul(n11, b01))),
                 cls(S4(BMul(a00, b11), BMul(a01, b10), BMul(a10, b01), BMul(a11, b00))) }
      [] OTHER -> {}
CovNames == {"sop.qdigit0", "mul.qdigit0", "mul.carry2", "mul.ge_p", "mul.lt_p", "add.carry", "add.eq_p", "add.ge_p", "add.lt_p", "sub.equal", "sub.borrow", "sub.plain",
             "sop.u4=0", "sop.u4=1.r<q", "sop.u4=1.r>=q", "sop.u4>=2",
             "sop4.u4=0", "sop4.u4=1", "sop4.u4=2", "sop4.u4>=3"}
\* ---------------------------------------------------------------- conversions
ChkFromSlice(e) == OptIs(e.out, FromSliceSpec(FMod(e.F), e.in), 32)
ChkInterpret(e) == Len(e.in) = 64 /\ OptIs(e.out, BMod(FromBE(e.in), FMod(e.F)), 32)
ChkFromStr(e) == IF e.in = <<>> THEN TRUE      \* the empty string is not asserted (DESIGN section 2)
                 ELSE OptIs(e.out, FromStrSpec(FMod(e.F), e.in), 32)
ChkFromHash(e) == OptIs(e.out, FromHashSpec(e.in), 32)
                  /\ (IsSome(e.out) => FromBE(e.out.v) # <<>> /\ BLess(FromBE(e.out.v), R))
ChkRoundtrip(e) == Canon(e.F, e.a) /\ IsSome(e.out) /\ e.out.v = e.a /\ e.same = TRUE
ChkToBigEndian(e) == Canon("Fq", e.a) /\ IF e.buflen = 32 THEN IsSome(e.out) /\ e.out.v = e.a ELSE IsNone(e.out)
ChkSetBit(e) == /\ Canon("Fr", e.a) /\ Canon("Fr", e.out)
                /\ IF e.i < 256 THEN FromBE(e.out) = SetBitSpec(FromBE(e.a), e.i, e.to)
                   ELSE \/ e.out = e.a                                             \* out of range: unchanged ...
                        \/ e.to /\ FromBE(e.out) = BMod(BAdd(FromBE(e.a), Pow2N(e.i)), R)   \* ... or the bit of weight 2^i
\* ---------------------------------------------------------------- Fq2 (64 bytes, imaginary part first)
Canon2(b) == IsByteStr(b, 64) /\ LimbsBelowQ(b)
F2Bin(op, x, y) == CASE op = "f2.add" -> E2!Add(x, y) [] op = "f2.sub" -> E2!Sub(x, y) [] op = "f2.mul" -> E2!Mul(x, y)
ChkF2Bin(e) == /\ e.form \in {"vv", "rv", "vr", "rr", "av", "ar"}
               /\ Canon2(e.a) /\ Canon2(e.b) /\ Canon2(e.out)
               /\ DecFq2(e.out) = F2Bin(e.op, DecFq2(e.a), DecFq2(e.b))
               /\ ("outz" \in DOMAIN e => e.outz = (DecFq2(e.out) = E2!Zero) /\ e.outeq = TRUE)
ChkF2Neg(e) == Canon2(e.a) /\ Canon2(e.out) /\ DecFq2(e.out) = E2!Neg(DecFq2(e.a))
ChkF2Parts(e) == /\ Canon2(e.a) /\ Canon("Fq", e.re) /\ Canon("Fq", e.im)
                 /\ <<FromBE(e.re), FromBE(e.im)>> = DecFq2(e.a)
                 /\ e.even = ~BIsOdd(DecFq2(e.a)[1]) /\ e.zero = (DecFq2(e.a) = E2!Zero)
ChkF2New(e) == Canon("Fq", e.re) /\ Canon("Fq", e.im) /\ e.out = e.im \o e.re
\* Fq2::from_slice: exactly 64 bytes; a component >= q must not panic (None or reduced are both accepted)
ChkF2FromSlice(e) == IF Len(e.in) # 64 THEN IsNone(e.out)
                     ELSE IF LimbsBelowQ(e.in) THEN IsSome(e.out) /\ e.out.v = e.in
                     ELSE IsNone(e.out) \/ (IsSome(e.out) /\ Canon2(e.out.v)
                                            /\ DecFq2(e.out.v) = << BMod(DecFq2(e.in)[1], Q), BMod(DecFq2(e.in)[2], Q) >>)
ChkF2Eq(e) == Canon2(e.a) /\ Canon2(e.b) /\ e.out = (e.a = e.b)
\* doubling of (x, y, 1) observed through G2::{x,y,z}: the result must denote the affine double of (x, y) on the
\* curve y^2 = x^3 + (y^2 - x^3) through that point (doubling formulas for a = 0 do not involve b)
ChkF2G2Dbl(e) ==
    /\ Canon2(e.x) /\ Canon2(e.y) /\ Canon2(e.ox) /\ Canon2(e.oy) /\ Canon2(e.oz)
    /\ LET x == DecFq2(e.x)  y == DecFq2(e.y)  ox == DecFq2(e.ox)  oy == DecFq2(e.oy)  oz == DecFq2(e.oz)
       IN IF y = E2!Zero THEN oz = E2!Zero
          ELSE /\ oz # E2!Zero
               /\ LET lam == E2!Mul(E2!Scale(E2!Sqr(x), N(3)), E2!Inv(E2!Add(y, y)))
                      x3 == E2!Sub(E2!Sqr(lam), E2!Add(x, x))
                      y3 == E2!Sub(E2!Mul(lam, E2!Sub(x, x3)), y)
                      zi == E2!Inv(oz)
                  IN E2!Mul(ox, E2!Sqr(zi)) = x3 /\ E2!Mul(oy, E2!Mul(E2!Sqr(zi), zi)) = y3
ChkF2Laws(e) ==
    /\ Canon2(e.a) /\ Canon2(e.b) /\ Canon2(e.c)
    /\ LET a == DecFq2(e.a)  b == DecFq2(e.b)  c == DecFq2(e.c)
       IN /\ e.ab = EncFq2(E2!Mul(a, b)) /\ e.ba = e.ab
          /\ e.ab_c = EncFq2(E2!Mul(E2!Mul(a, b), c)) /\ e.a_bc = e.ab_c
          /\ e.a_bpc = EncFq2(E2!Mul(a, E2!Add(b, c))) /\ e.abpac = e.a_bpc
          /\ e.a1 = e.a
\* Fq2::sqrt: Some(s) => s*s = x;  None <=> x is not a square of Fq2 (Euler criterion in Fq2)
ChkF2Sqrt(e) == Canon2(e.a) /\
                IF E2!IsSquare(DecFq2(e.a)) THEN IsSome(e.out) /\ Canon2(e.out.v) /\ E2!Sqr(DecFq2(e.out.v)) = DecFq2(e.a)
                ELSE IsNone(e.out)
=============================================================================
