INIT MInit
NEXT MNext
INVARIANT MillerOK
CHECK_DEADLOCK FALSE
