------------------------------- MODULE JacAlgo -------------------------------
(* The Jacobian algorithms of src/groups.rs (eq, to_affine, double dbl-2009-l, the  *)
(* four-case add, neg, sub, double-and-add mul), transcribed ONCE over a field given *)
(* by operator parameters.  Instantiated on native integers by the Level-B models    *)
(* (ImplJacobian, ImplMachine) and on Fq / Fq2 at SM9 size by the trace              *)
(* specification, where the transcription is compared with the code's exact output   *)
(* triples (drift check).                                                            *)
LOCAL INSTANCE Naturals
LOCAL INSTANCE Sequences
LOCAL INSTANCE SequencesExt
CONSTANTS FAdd(_, _), FSub(_, _), FMul(_, _), FInv(_), FZero, FOne
FNeg(a) == FSub(FZero, a)
FSqr(a) == FMul(a, a)
FDbl(a) == FAdd(a, a)
FTpl(a) == FAdd(FDbl(a), a)
IsZero(g) == g[3] = FZero
Zero == <<FZero, FOne, FZero>>
Double(g) ==
    LET a == FSqr(g[1])  b == FSqr(g[2])  c == FSqr(b)
        d == FDbl(FSub(FSub(FSqr(FAdd(g[1], b)), a), c))
        e == FTpl(a)  f == FSqr(e)
        x3 == FSub(f, FDbl(d))
        eightc == FDbl(FDbl(FDbl(c)))
    IN << x3, FSub(FMul(e, FSub(d, x3)), eightc), FDbl(FMul(g[2], g[3])) >>
RECURSIVE AddJ(_, _)
AddJ(s, o) ==
    IF IsZero(s) THEN o ELSE IF IsZero(o) THEN s
    ELSE IF s[3] = FOne /\ o[3] = FOne THEN
        LET h == FSub(o[1], s[1])  r == FSub(o[2], s[2])
        IN IF r = FZero /\ h = FZero THEN Double(s)
           ELSE LET hh == FSqr(h)  hhh == FMul(h, hh)  v == FMul(s[1], hh)
                    x == FSub(FSub(FSqr(r), hhh), FDbl(v))
                IN << x, FSub(FMul(r, FSub(v, x)), FMul(s[2], hhh)), h >>
    ELSE IF s[3] # FOne /\ o[3] = FOne THEN
        LET z1s == FSqr(s[3])  u2 == FMul(o[1], z1s)  z1c == FMul(s[3], z1s)  s2 == FMul(o[2], z1c)
            h == FSub(u2, s[1])  r == FSub(s2, s[2])
        IN IF r = FZero /\ h = FZero THEN Double(s)
           ELSE LET hh == FSqr(h)  hhh == FMul(h, hh)  v == FMul(s[1], hh)
                    x == FSub(FSub(FSqr(r), hhh), FDbl(v))
                IN << x, FSub(FMul(r, FSub(v, x)), FMul(s[2], hhh)), FMul(s[3], h) >>
    ELSE IF s[3] = FOne /\ o[3] # FOne THEN AddJ(o, s)
    ELSE
        LET z1s == FSqr(s[3])  z2s == FSqr(o[3])
            u1 == FMul(s[1], z2s)  u2 == FMul(o[1], z1s)
            z1c == FMul(s[3], z1s)  z2c == FMul(o[3], z2s)
            s1 == FMul(s[2], z2c)  s2 == FMul(o[2], z1c)
            r == FSub(s2, s1)  h == FSub(u2, u1)  t6 == FAdd(s1, s2)
        IN IF r = FZero /\ h = FZero THEN Double(s)
           ELSE IF r = FZero /\ t6 = FZero THEN Zero
           ELSE LET hh == FSqr(h)  hhh == FMul(h, hh)  v == FMul(u1, hh)
                    x == FSub(FSub(FSqr(r), hhh), FDbl(v))
                IN << x, FSub(FMul(r, FSub(v, x)), FMul(s1, hhh)), FMul(FMul(s[3], o[3]), h) >>
NegJ(g) == IF IsZero(g) THEN g ELSE << g[1], FNeg(g[2]), g[3] >>
SubJ(s, o) == AddJ(s, NegJ(o))
EqJ(s, o) ==
    IF IsZero(s) THEN IsZero(o) ELSE IF IsZero(o) THEN FALSE
    ELSE LET z1s == FSqr(s[3])  z2s == FSqr(o[3])
         IN IF FMul(s[1], z2s) # FMul(o[1], z1s) THEN FALSE
            ELSE FMul(s[2], FMul(o[3], z2s)) = FMul(o[2], FMul(s[3], z1s))
ToAffine(g) == IF g[3] = FZero THEN <<>>
               ELSE IF g[3] = FOne THEN << g[1], g[2] >>
               ELSE LET zi == FInv(g[3])  zi2 == FSqr(zi) IN << FMul(g[1], zi2), FMul(g[2], FMul(zi2, zi)) >>
MulJ(g, bits) == FoldLeft(LAMBDA res, bit : IF bit = 1 THEN AddJ(Double(res), g) ELSE Double(res), Zero, bits)
=============================================================================
