---------------------------- MODULE ImplJacobian ----------------------------
(* Level B: transcription of src/groups.rs (eq 175-201, to_affine 204-223,     *)
(* double 263-279, mul 281-296, add 307-387, neg 403-417) over a tiny prime     *)
(* field, checked against the affine chord-and-tangent law for EVERY Jacobian   *)
(* representative of every point of a prime-order curve y^2 = x^3 + B.          *)
EXTENDS Naturals, Sequences, SequencesExt, TLC, FiniteSets
CONSTANTS P, B
Fp == 0..(P - 1)
FAdd(a, b) == (a + b) % P
FSub(a, b) == (a + P - b) % P
FMul(a, b) == (a * b) % P
FNeg(a) == (P - a) % P
FSqr(a) == FMul(a, a)
FDbl(a) == FAdd(a, a)
FTpl(a) == FAdd(FDbl(a), a)
RECURSIVE PowN(_, _)
PowN(a, n) == IF n = 0 THEN 1 ELSE IF n % 2 = 1 THEN FMul(a, PowN(a, n - 1)) ELSE LET h == PowN(a, n \div 2) IN FMul(h, h)
FInv(a) == PowN(a, P - 2)
\* ------------------------------------------------------------------ textbook
Aff == INSTANCE Curve WITH FAdd <- FAdd, FSub <- FSub, FMul <- FMul, FInv <- FInv, FZero <- 0, B <- B
AffPoints == { <<x, y>> \in Fp \X Fp : FSqr(y) = FAdd(FMul(FSqr(x), x), B) }
\* ------------------------------------------------------------------ the code
IsZero(g) == g[3] = 0
Zero == <<0, 1, 0>>
Double(g) ==
    LET a == FSqr(g[1])  b == FSqr(g[2])  c == FSqr(b)
        d == FDbl(FSub(FSub(FSqr(FAdd(g[1], b)), a), c))
        e == FTpl(a)  f == FSqr(e)
        x3 == FSub(f, FDbl(d))
        eightc == FDbl(FDbl(FDbl(c)))
    IN << x3, FSub(FMul(e, FSub(d, x3)), eightc), FDbl(FMul(g[2], g[3])) >>
RECURSIVE AddJ(_, _)
AddJ(s, o) ==
    IF IsZero(s) THEN o ELSE IF IsZero(o) THEN s
    ELSE IF s[3] = 1 /\ o[3] = 1 THEN
        LET h == FSub(o[1], s[1])  r == FSub(o[2], s[2])
        IN IF r = 0 /\ h = 0 THEN Double(s)
           ELSE LET hh == FSqr(h)  hhh == FMul(h, hh)  v == FMul(s[1], hh)
                    x == FSub(FSub(FSqr(r), hhh), FDbl(v))
                IN << x, FSub(FMul(r, FSub(v, x)), FMul(s[2], hhh)), h >>
    ELSE IF s[3] # 1 /\ o[3] = 1 THEN
        LET z1s == FSqr(s[3])  u2 == FMul(o[1], z1s)  z1c == FMul(s[3], z1s)  s2 == FMul(o[2], z1c)
            h == FSub(u2, s[1])  r == FSub(s2, s[2])
        IN IF r = 0 /\ h = 0 THEN Double(s)
           ELSE LET hh == FSqr(h)  hhh == FMul(h, hh)  v == FMul(s[1], hh)
                    x == FSub(FSub(FSqr(r), hhh), FDbl(v))
                IN << x, FSub(FMul(r, FSub(v, x)), FMul(s[2], hhh)), FMul(s[3], h) >>
    ELSE IF s[3] = 1 /\ o[3] # 1 THEN AddJ(o, s)
    ELSE
        LET z1s == FSqr(s[3])  z2s == FSqr(o[3])
            u1 == FMul(s[1], z2s)  u2 == FMul(o[1], z1s)
            z1c == FMul(s[3], z1s)  z2c == FMul(o[3], z2s)
            s1 == FMul(s[2], z2c)  s2 == FMul(o[2], z1c)
            r == FSub(s2, s1)  h == FSub(u2, u1)  t6 == FAdd(s1, s2)
        IN IF r = 0 /\ h = 0 THEN Double(s)
           ELSE IF r = 0 /\ t6 = 0 THEN Zero
           ELSE LET hh == FSqr(h)  hhh == FMul(h, hh)  v == FMul(u1, hh)
                    x == FSub(FSub(FSqr(r), hhh), FDbl(v))
                IN << x, FSub(FMul(r, FSub(v, x)), FMul(s1, hhh)), FMul(FMul(s[3], o[3]), h) >>
NegJ(g) == IF IsZero(g) THEN g ELSE << g[1], FNeg(g[2]), g[3] >>
SubJ(s, o) == AddJ(s, NegJ(o))
EqJ(s, o) ==
    IF IsZero(s) THEN IsZero(o) ELSE IF IsZero(o) THEN FALSE
    ELSE LET z1s == FSqr(s[3])  z2s == FSqr(o[3])
         IN IF FMul(s[1], z2s) # FMul(o[1], z1s) THEN FALSE
            ELSE FMul(s[2], FMul(o[3], z2s)) = FMul(o[2], FMul(s[3], z1s))
ToAffine(g) == IF g[3] = 0 THEN Aff!Inf
               ELSE IF g[3] = 1 THEN << g[1], g[2] >>
               ELSE LET zi == FInv(g[3])  zi2 == FSqr(zi) IN << FMul(g[1], zi2), FMul(g[2], FMul(zi2, zi)) >>
MulJ(g, bits) == FoldLeft(LAMBDA res, bit : IF bit = 1 THEN AddJ(Double(res), g) ELSE Double(res), Zero, bits)
\* ------------------------------------------------------------------ abstraction and state space
Abs(g) == IF g[3] = 0 THEN Aff!Inf
          ELSE LET zi == FInv(g[3]) zi2 == FSqr(zi) IN << FMul(g[1], zi2), FMul(g[2], FMul(zi2, zi)) >>
Reps == { << FMul(FSqr(l), pt[1]), FMul(FMul(FSqr(l), l), pt[2]), l >> : pt \in AffPoints, l \in 1..(P - 1) }
        \cup { << x, y, 0 >> : x \in Fp, y \in Fp }
RECURSIVE Bits(_)
Bits(n) == IF n = 0 THEN <<>> ELSE Append(Bits(n \div 2), n % 2)
Order == Cardinality(AffPoints) + 1
VARIABLES A, Bv
Init == A \in Reps /\ Bv \in Reps
Next == UNCHANGED <<A, Bv>>
AddOK  == Abs(AddJ(A, Bv)) = Aff!Add(Abs(A), Abs(Bv))
SubOK  == Abs(SubJ(A, Bv)) = Aff!Add(Abs(A), Aff!Neg(Abs(Bv)))
DblOK  == Abs(Double(A)) = Aff!Dbl(Abs(A))
NegOK  == Abs(NegJ(A)) = Aff!Neg(Abs(A))
EqOK   == EqJ(A, Bv) = (Abs(A) = Abs(Bv))
AffOK  == ToAffine(A) = Abs(A)
MulOK  == \A k \in {0, 1, 2, 3, Order - 1, Order - 2, (Order + 1) \div 2} : Abs(MulJ(A, Bits(k))) = Aff!Mul(Bits(k), Abs(A))
=============================================================================
