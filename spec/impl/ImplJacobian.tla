---------------------------- MODULE ImplJacobian ----------------------------
(* Level B: the transcription of src/groups.rs in JacAlgo.tla (eq 175-201, to_affine 204-223,     *)
(* double 263-279, mul 281-296, add 307-387, neg 403-417) over a tiny prime     *)
(* field, checked against the affine chord-and-tangent law for EVERY Jacobian   *)
(* representative of every point of a prime-order curve y^2 = x^3 + B.          *)
EXTENDS Naturals, Sequences, SequencesExt, TLC, FiniteSets
CONSTANTS P, B
Fp == 0..(P - 1)
FAdd(a, b) == (a + b) % P
FSub(a, b) == (a + P - b) % P
FMul(a, b) == (a * b) % P
FNeg(a) == (P - a) % P
FSqr(a) == FMul(a, a)
FDbl(a) == FAdd(a, a)
FTpl(a) == FAdd(FDbl(a), a)
RECURSIVE PowN(_, _)
PowN(a, n) == IF n = 0 THEN 1 ELSE IF n % 2 = 1 THEN FMul(a, PowN(a, n - 1)) ELSE LET h == PowN(a, n \div 2) IN FMul(h, h)
FInv(a) == PowN(a, P - 2)
\* ------------------------------------------------------------------ textbook
Aff == INSTANCE Curve WITH FAdd <- FAdd, FSub <- FSub, FMul <- FMul, FInv <- FInv, FZero <- 0, B <- B
AffPoints == { <<x, y>> \in Fp \X Fp : FSqr(y) = FAdd(FMul(FSqr(x), x), B) }
\* ------------------------------------------------------------------ the code
J == INSTANCE JacAlgo WITH FAdd <- FAdd, FSub <- FSub, FMul <- FMul, FInv <- FInv, FZero <- 0, FOne <- 1
IsZero(g) == J!IsZero(g)
Zero == J!Zero
Double(g) == J!Double(g)
AddJ(s, o) == J!AddJ(s, o)
NegJ(g) == J!NegJ(g)
SubJ(s, o) == J!SubJ(s, o)
EqJ(s, o) == J!EqJ(s, o)
ToAffine(g) == J!ToAffine(g)
MulJ(g, bits) == J!MulJ(g, bits)
\* ------------------------------------------------------------------ abstraction and state space
Abs(g) == IF g[3] = 0 THEN Aff!Inf
          ELSE LET zi == FInv(g[3]) zi2 == FSqr(zi) IN << FMul(g[1], zi2), FMul(g[2], FMul(zi2, zi)) >>
Reps == { << FMul(FSqr(l), pt[1]), FMul(FMul(FSqr(l), l), pt[2]), l >> : pt \in AffPoints, l \in 1..(P - 1) }
        \cup { << x, y, 0 >> : x \in Fp, y \in Fp }
RECURSIVE Bits(_)
Bits(n) == IF n = 0 THEN <<>> ELSE Append(Bits(n \div 2), n % 2)
Order == Cardinality(AffPoints) + 1
VARIABLES A, Bv
Init == A \in Reps /\ Bv \in Reps
Next == UNCHANGED <<A, Bv>>
AddOK  == Abs(AddJ(A, Bv)) = Aff!Add(Abs(A), Abs(Bv))
SubOK  == Abs(SubJ(A, Bv)) = Aff!Add(Abs(A), Aff!Neg(Abs(Bv)))
DblOK  == Abs(Double(A)) = Aff!Dbl(Abs(A))
NegOK  == Abs(NegJ(A)) = Aff!Neg(Abs(A))
EqOK   == EqJ(A, Bv) = (Abs(A) = Abs(Bv))
AffOK  == ToAffine(A) = Abs(A)
MulOK  == \A k \in {0, 1, 2, 3, Order - 1, Order - 2, (Order + 1) \div 2} : Abs(MulJ(A, Bits(k))) = Aff!Mul(Bits(k), Abs(A))
=============================================================================
