----------------------------- MODULE ImplMachine -----------------------------
(* Level B for the HISTORY property (C16): the code's Jacobian algorithms       *)
(* (transcribed in ImplJacobian) run as a register machine on a tiny prime-     *)
(* order curve.  TLC computes the full set of register files REACHABLE from the *)
(* generator by any finite sequence of add / sub / neg / scalar multiplication  *)
(* / normalize / copy - i.e. histories of UNBOUNDED length, as a fixpoint - and *)
(* checks in every reachable state that each register denotes [k]G for the      *)
(* discrete logarithm k tracked as a ghost, and that ==, is_zero are the ones   *)
(* predicted by the logarithms alone.  Unlike ImplJacobian (all pairs of all    *)
(* representatives, one step), this follows the representatives the code        *)
(* actually produces through arbitrarily long histories.                        *)
EXTENDS ImplJacobian
CONSTANTS Gx, Gy                       \* the generator
Gen == << Gx, Gy, 1 >>
Ord == Order
VARIABLES r1, r2, k1, k2
mvars == << r1, r2, k1, k2 >>
MInit == r1 = Gen /\ r2 = Gen /\ k1 = 1 /\ k2 = 1 /\ A = Gen /\ Bv = Gen
Normalize(g) == IF g[3] = 0 THEN g ELSE LET a == ToAffine(g) IN << a[1], a[2], 1 >>
Scal == {0, 1, 2, 3, Ord - 1}
Set1(g, k) == r1' = g /\ k1' = k % Ord /\ UNCHANGED << r2, k2, A, Bv >>
Set2(g, k) == r2' = g /\ k2' = k % Ord /\ UNCHANGED << r1, k1, A, Bv >>
MNext == \/ Set1(AddJ(r1, r2), k1 + k2) \/ Set2(AddJ(r1, r2), k1 + k2) \/ Set1(AddJ(r2, r1), k1 + k2)
         \/ Set1(SubJ(r1, r2), k1 + Ord - k2) \/ Set2(SubJ(r2, r1), k2 + Ord - k1)
         \/ Set1(NegJ(r1), Ord - k1) \/ Set2(NegJ(r2), Ord - k2)
         \/ Set1(Normalize(r1), k1) \/ Set2(Normalize(r2), k2)
         \/ Set1(r2, k2) \/ Set2(r1, k1)
         \/ Set1(Gen, 1) \/ Set2(Zero, 0)
         \/ \E s \in Scal : Set1(MulJ(r1, Bits(s)), k1 * s) \/ Set2(MulJ(r2, Bits(s)), k2 * s)
KG(k) == Aff!Mul(Bits(k), << Gx, Gy >>)
Denotes == Abs(r1) = KG(k1) /\ Abs(r2) = KG(k2)
OnCurveJ(g) == g[3] = 0 \/ FSqr(g[2]) = FAdd(FMul(FSqr(g[1]), g[1]), FMul(B, FMul(FSqr(g[3]), FMul(FSqr(g[3]), FSqr(g[3])))))
WellFormed == OnCurveJ(r1) /\ OnCurveJ(r2)
ObsByLog == /\ EqJ(r1, r2) = (k1 = k2) /\ EqJ(r2, r1) = (k1 = k2)
            /\ IsZero(r1) = (k1 = 0) /\ IsZero(r2) = (k2 = 0)
            /\ ToAffine(r1) = KG(k1) /\ ToAffine(r2) = KG(k2)
=============================================================================
