------------------------------ MODULE ImplTower ------------------------------
(* Level B for the tower engine: TowerAlgo (the transcription of fq2.rs,        *)
(* fq4.rs, fq12.rs) instantiated over the tiny prime field F_13 (13 = 1 mod 12, *)
(* -2 a non-residue: the same tower shape as SM9) and compared with arithmetic  *)
(* in the polynomial ring F_13[w]/(w^12 + 2) (module Ext12):                     *)
(*   Fq2   every ordered pair of elements (28 561): mul, squaring, inverse;      *)
(*   Fq4   every element (28 561) x a structured set: mul, mul_1, squaring,      *)
(*         inverse, the eight Frobenius codes (= p^k-th power of the embedded    *)
(*         element);                                                             *)
(*   Fq12  pseudo-random, sparse and structured elements: Karatsuba mul,         *)
(*         CH-SQR2, mul_015, inverse, Frobenius 1, 2, 3, 6.                      *)
EXTENDS Naturals, Sequences, SequencesExt, TLC, FiniteSets
P == 13
F == INSTANCE IntField WITH P <- 13
CC == 11                                   \* (-2)^((13-1)/12) = -2
X0 == INSTANCE Ext12 WITH FAdd <- F!FAdd, FSub <- F!FSub, FMul <- F!FMul, FInv <- F!FInv, FDot <- F!FDot, FZero <- 0, FOne <- 1, Beta <- 11, FrobTab <- <<>>
FrobTabC == X0!MkFrobTab(CC)
X == INSTANCE Ext12 WITH FAdd <- F!FAdd, FSub <- F!FSub, FMul <- F!FMul, FInv <- F!FInv, FDot <- F!FDot, FZero <- 0, FOne <- 1, Beta <- 11, FrobTab <- FrobTabC
TA == INSTANCE TowerAlgo WITH FAdd <- F!FAdd, FSub <- F!FSub, FMul <- F!FMul, FInv <- F!FInv, FZero <- 0, FOne <- 1, C <- CC
PBits == F!NatBits(13)
Fp == 0..12
\* embeddings into the polynomial basis
P2(x) == X!T12(LAMBDA i : IF i = 1 THEN x[1] ELSE IF i = 7 THEN x[2] ELSE 0)
P4(x) == X!T12(LAMBDA i : CASE i = 1 -> x[1][1] [] i = 7 -> x[1][2] [] i = 4 -> x[2][1] [] i = 10 -> x[2][2] [] OTHER -> 0)
WP(j) == X!T12(LAMBDA i : IF i = j + 1 THEN 1 ELSE 0)
RECURSIVE PowP(_, _)
PowP(a, k) == IF k = 0 THEN a ELSE PowP(X!Pow(a, PBits), k - 1)              \* a^(13^k)
\* ---------------------------------------------------------------- state: two selectors
VARIABLES xa, ya, lvl, res         \* res: "todo" -> "ok" | "bad"; the checks are evaluated in Next (TLC worker threads), not on initial states (main thread only)
Fq2All == Fp \X Fp
Init2 == res = "todo" /\ lvl = 2 /\ xa \in Fq2All /\ ya \in Fq2All
Fq4Y == { << <<1, 0>>, <<0, 0>> >>, << <<0, 1>>, <<0, 0>> >>, << <<0, 0>>, <<1, 0>> >>, << <<0, 0>>, <<0, 1>> >>, << <<12, 12>>, <<12, 12>> >>,
          << <<3, 7>>, <<0, 0>> >>, << <<0, 0>>, <<5, 11>> >>, << <<2, 9>>, <<4, 6>> >>, << <<12, 0>>, <<0, 1>> >>, << <<7, 7>>, <<7, 6>> >> }
Init4 == res = "todo" /\ lvl = 4 /\ xa \in (Fq2All \X Fq2All) /\ ya \in Fq4Y
\* F_13^12 samples: LCG-generated dense elements, sparse ones, units of the subfields
Lcg(s) == (s * 75 + 74) % 65537
RECURSIVE Dig(_, _)
Dig(s, n) == IF n = 0 THEN <<>> ELSE <<Lcg(s) % 13>> \o Dig(Lcg(s), n - 1)
Dense(s) == TA!FromPoly(Dig(s, 12))
Sparse(s) == TA!FromPoly([i \in 1..12 |-> IF (s + i) % 4 = 0 THEN Dig(s, 12)[i] ELSE 0])
S12 == { Dense(s) : s \in 1..14 } \cup { Sparse(s) : s \in 20..31 } \cup { TA!O12, << TA!Z4, TA!O4, TA!Z4 >>, << TA!Z4, TA!Z4, TA!O4 >> }
Init12 == res = "todo" /\ lvl = 12 /\ xa \in S12 /\ ya \in S12

\* ---------------------------------------------------------------- invariants
Fq2OK == lvl = 2 =>
    /\ P2(TA!Mul2(xa, ya)) = X!Mul(P2(xa), P2(ya))
    /\ TA!Sqr2(xa) = TA!Mul2(xa, xa)
    /\ P2(TA!MulNR2(xa)) = X!Mul(P2(xa), WP(6))
    /\ (xa # TA!Z2 => TA!Mul2(TA!Inv2(xa), xa) = TA!O2)
Norm4(x) == TA!Sub2(TA!Sqr2(x[1]), TA!MulNR2(TA!Sqr2(x[2])))
Fq4OK == lvl = 4 =>
    /\ P4(TA!Mul4(xa, ya)) = X!Mul(P4(xa), P4(ya))
    /\ TA!Sqr4(xa) = TA!Mul4(xa, xa)
    /\ P4(TA!MulNR4(xa)) = X!Mul(P4(xa), WP(3))
    /\ (ya[1] = TA!Z2 => TA!Mul1_4(xa, ya) = TA!Mul4(xa, ya))
    /\ (Norm4(xa) # TA!Z2 => TA!Mul4(TA!Inv4(xa), xa) = TA!O4)
\* the eight Frobenius codes, on every element of F_13^4 (one fixed second operand)
Init4F == res = "todo" /\ lvl = 5 /\ xa \in (Fq2All \X Fq2All) /\ ya = << <<1, 0>>, <<0, 0>> >>
Fq4Frob == lvl = 5 =>
    \A code \in {10, 11, 12, 21, 22, 30, 31, 32} :
          X!Mul(P4(TA!Frob4(xa, code)), WP(code % 10)) = PowP(X!Mul(P4(xa), WP(code % 10)), code \div 10)
Sparse015(y) == << y[1], TA!Z4, << TA!Z2, y[3][2] >> >>
T12Mul == lvl = 12 => TA!ToPoly(TA!Mul12(xa, ya)) = X!Mul(TA!ToPoly(xa), TA!ToPoly(ya))
T12Sqr == lvl = 12 => TA!Sqr12(xa) = TA!Mul12(xa, xa)
T12M015 == lvl = 12 => TA!Mul015(xa, Sparse015(ya)) = TA!Mul12(xa, Sparse015(ya))
T12NR == lvl = 12 => TA!ToPoly(TA!MulNR12(xa)) = X!Mul(TA!ToPoly(xa), WP(1)) /\ TA!FromPoly(TA!ToPoly(xa)) = xa
T12Frob == lvl = 12 => \A k \in {1, 2, 3, 6} : TA!ToPoly(TA!Frob12(xa, k)) = PowP(TA!ToPoly(xa), k) /\ TA!ToPoly(TA!Frob12(xa, k)) = X!Frob(TA!ToPoly(xa), k)
T12Inv == lvl = 12 => (X!Mul(TA!ToPoly(xa), X!Inv(TA!ToPoly(xa))) = X!One => TA!Mul12(TA!Inv12(xa), xa) = TA!O12)
Fq12OK == T12Mul /\ T12Sqr /\ T12M015 /\ T12NR /\ T12Frob /\ T12Inv
Next == res = "todo" /\ UNCHANGED << xa, ya, lvl >> /\ res' = (IF Fq2OK /\ Fq4OK /\ Fq4Frob /\ Fq12OK THEN "ok" ELSE "bad")
AllOK == res # "bad"
=============================================================================
