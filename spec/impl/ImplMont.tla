------------------------------ MODULE ImplMont ------------------------------
(* Level B: transcription of src/u256.rs and src/arith.rs with 4 limbs of W     *)
(* bits (LB = 2^W) instead of 64, checked exhaustively against arithmetic mod M. *)
EXTENDS Naturals, Sequences, SequencesExt, TLC, FiniteSets
CONSTANTS W, M                      \* limb width, modulus (odd, 2^(4W-1) < M < 2^(4W) like SM9's q and r)
LB == 2 ^ W
RR == LB ^ 4                        \* Montgomery radix R
Limbs(n) == << n % LB, (n \div LB) % LB, (n \div (LB * LB)) % LB, (n \div (LB * LB * LB)) % LB >>
ValOf(l) == l[1] + LB * (l[2] + LB * (l[3] + LB * l[4]))
ML == Limbs(M)
\* inv = -M^-1 mod LB
MInv == CHOOSE x \in 0..(LB - 1) : (x * M + 1) % LB = 0
\* ------------------------------------------------------------- arith.rs
Mac(a, b, c, carry) == LET t == a + b * c + carry IN << t % LB, t \div LB >>
Adc(a, b, carry) == LET t == a + b + carry IN << t % LB, t \div LB >>
\* ------------------------------------------------------------- ark-ff BigInt primitives used by the code
AddWithCarry(a, b) == LET t == ValOf(a) + ValOf(b) IN << Limbs(t % RR), t >= RR >>          \* (sum mod R, carry)
SubWithBorrow(a, b) == LET va == ValOf(a) vb == ValOf(b) IN << Limbs((va + RR - vb) % RR), va < vb >>
Geq(a, b) == ValOf(a) >= ValOf(b)
\* ------------------------------------------------------------- u256.rs
SubModWithCarry(a, carry) == IF carry \/ Geq(a, ML) THEN SubWithBorrow(a, ML)[1] ELSE a
UAdd(a, b) == LET s == AddWithCarry(a, b) IN SubModWithCarry(s[1], s[2])
USub(a, b) == LET a1 == IF ValOf(a) < ValOf(b) THEN AddWithCarry(a, ML)[1] ELSE a IN SubWithBorrow(a1, b)[1]
UMul2(a) == LET s == AddWithCarry(a, a) IN SubModWithCarry(s[1], s[2])
UNeg(a) == IF ValOf(a) = 0 THEN a ELSE SubWithBorrow(ML, a)[1]
UDiv2(a) ==
    LET odd == a[1] % 2 = 1
        s == IF odd THEN AddWithCarry(a, ML) ELSE << a, FALSE >>
        h == Limbs(ValOf(s[1]) \div 2)
    IN IF s[2] THEN SubModWithCarry(Limbs(ValOf(h) + RR \div 2), FALSE) ELSE h    \* set_bit(255) then conditional subtract
\* r is an 8-tuple of limbs
Upd(r, k, v) == [r EXCEPT ![k] = v]
MulNoSub(d, e) ==
    LET rowstep(st, j) ==      \* st = <<r, carry, i>>
            LET k == st[3] + j - 1                      \* 1-based index of limb i+j
                mc == Mac(st[1][k], d[st[3]], e[j], st[2])
            IN << Upd(st[1], k, mc[1]), mc[2], st[3] >>
        row(r, i) == LET st == FoldLeft(rowstep, << r, 0, i >>, <<1, 2, 3, 4>>) IN Upd(st[1], 4 + i, st[2])
        prod == FoldLeft(row, <<0, 0, 0, 0, 0, 0, 0, 0>>, <<1, 2, 3, 4>>)
        redstep(st, j) ==      \* st = <<r, carry, i, tmp>>
            LET k == st[3] + j - 1
                mc == Mac(st[1][k], st[4], ML[j], st[2])
            IN << Upd(st[1], k, mc[1]), mc[2], st[3], st[4] >>
        red(st2, i) ==         \* st2 = <<r, carry2>>
            LET r == st2[1]
                tmp == (r[i] * MInv) % LB
                c0 == (r[i] + tmp * ML[1]) \div LB                       \* mac_discard
                st == FoldLeft(redstep, << r, c0, i, tmp >>, <<2, 3, 4>>)
                ad == Adc(st[1][4 + i], st[2], st2[2])
            IN << Upd(st[1], 4 + i, ad[1]), ad[2] >>
        fin == FoldLeft(red, << prod, 0 >>, <<1, 2, 3, 4>>)
    IN << fin[2] # 0, SubSeq(fin[1], 5, 8) >>
UMul(a, b) == LET m == MulNoSub(a, b) IN SubModWithCarry(m[2], m[1])
USquare(a) ==
    LET \* off-diagonal products
        offstep(st, j) == LET k == st[3] + j - 1 mc == Mac(st[1][k], a[st[3]], a[j], st[2]) IN << Upd(st[1], k, mc[1]), mc[2], st[3] >>
        offrow(r, i) == LET st == FoldLeft(offstep, << r, 0, i >>, SubSeq(<<1, 2, 3, 4>>, i + 1, 4)) IN Upd(st[1], 4 + i, st[2])
        r1 == FoldLeft(offrow, <<0, 0, 0, 0, 0, 0, 0, 0>>, <<1, 2, 3>>)
        \* doubling: r.b1[3] = r.b1[2] >> (W-1); for i in 2..7: r[8-i] = (r[8-i] << 1) | (r[8-(i+1)] >> (W-1)); r.b0[1] <<= 1
        top == LB \div 2
        r2 == Upd(r1, 8, r1[7] \div top)
        shl(r, i) == Upd(r, 9 - i, ((r[9 - i] * 2) % LB) + (r[8 - i] \div top))     \* 0-based index 8-i is 1-based 9-i
        r3 == FoldLeft(shl, r2, <<2, 3, 4, 5, 6>>)
        r4 == Upd(r3, 2, (r3[2] * 2) % LB)
        \* diagonal
        diag(st, i) == LET mc == Mac(st[1][2 * i - 1], a[i], a[i], st[2])
                           ad == Adc(st[1][2 * i], 0, mc[2])
                       IN << Upd(Upd(st[1], 2 * i - 1, mc[1]), 2 * i, ad[1]), ad[2] >>
        r5 == FoldLeft(diag, << r4, 0 >>, <<1, 2, 3, 4>>)[1]
        redstep(st, j) == LET k == st[3] + j - 1 mc == Mac(st[1][k], st[4], ML[j], st[2]) IN << Upd(st[1], k, mc[1]), mc[2], st[3], st[4] >>
        red(st2, i) ==
            LET r == st2[1]
                tmp == (r[i] * MInv) % LB
                c0 == (r[i] + tmp * ML[1]) \div LB
                st == FoldLeft(redstep, << r, c0, i, tmp >>, <<2, 3, 4>>)
                ad == Adc(st[1][4 + i], st[2], st2[2])
            IN << Upd(st[1], 4 + i, ad[1]), ad[2] >>
        fin == FoldLeft(red, << r5, 0 >>, <<1, 2, 3, 4>>)
    IN SubModWithCarry(SubSeq(fin[1], 5, 8), fin[2] # 0)
\* ------------------------------------------------------------- oracle
RInvModM == CHOOSE x \in 0..(M - 1) : (x * (RR % M)) % M = 1
Canon(l) == ValOf(l) < M
VARIABLES a, b
Init == a \in 0..(M - 1) /\ b \in 0..(M - 1)
Next == UNCHANGED <<a, b>>
AddOK == LET r == UAdd(Limbs(a), Limbs(b)) IN Canon(r) /\ ValOf(r) = (a + b) % M
SubOK == LET r == USub(Limbs(a), Limbs(b)) IN Canon(r) /\ ValOf(r) = (a + M - b) % M
Mul2OK == LET r == UMul2(Limbs(a)) IN Canon(r) /\ ValOf(r) = (2 * a) % M
NegOK == LET r == UNeg(Limbs(a)) IN Canon(r) /\ ValOf(r) = (M - a) % M
Div2OK == LET r == UDiv2(Limbs(a)) IN Canon(r) /\ (2 * ValOf(r)) % M = a
MulOK == LET r == UMul(Limbs(a), Limbs(b)) IN Canon(r) /\ ValOf(r) = (((a * b) % M) * RInvModM) % M
SqrOK == LET r == USquare(Limbs(a)) IN Canon(r) /\ r = UMul(Limbs(a), Limbs(a))
=============================================================================
