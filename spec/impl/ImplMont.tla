------------------------------ MODULE ImplMont ------------------------------
(* Level B: transcription of src/u256.rs and src/arith.rs with 4 limbs of W     *)
(* bits (LB = 2^W) instead of 64, checked exhaustively against arithmetic mod M. *)
EXTENDS Naturals, Sequences, SequencesExt, TLC, FiniteSets
CONSTANTS W, M                      \* limb width, modulus (odd, 2^(4W-1) < M < 2^(4W) like SM9's q and r)
LB == 2 ^ W
RR == LB ^ 4                        \* Montgomery radix R
Limbs(n) == << n % LB, (n \div LB) % LB, (n \div (LB * LB)) % LB, (n \div (LB * LB * LB)) % LB >>
ValOf(l) == l[1] + LB * (l[2] + LB * (l[3] + LB * l[4]))
ML == Limbs(M)
\* inv = -M^-1 mod LB
MInv == CHOOSE x \in 0..(LB - 1) : (x * M + 1) % LB = 0
\* ------------------------------------------------------------- arith.rs
Mac(a, b, c, carry) == LET t == a + b * c + carry IN << t % LB, t \div LB >>
Adc(a, b, carry) == LET t == a + b + carry IN << t % LB, t \div LB >>
\* ------------------------------------------------------------- ark-ff BigInt primitives used by the code
AddWithCarry(a, b) == LET t == ValOf(a) + ValOf(b) IN << Limbs(t % RR), t >= RR >>          \* (sum mod R, carry)
SubWithBorrow(a, b) == LET va == ValOf(a) vb == ValOf(b) IN << Limbs((va + RR - vb) % RR), va < vb >>
Geq(a, b) == ValOf(a) >= ValOf(b)
\* ------------------------------------------------------------- u256.rs
SubModWithCarry(a, carry) == IF carry \/ Geq(a, ML) THEN SubWithBorrow(a, ML)[1] ELSE a
UAdd(a, b) == LET s == AddWithCarry(a, b) IN SubModWithCarry(s[1], s[2])
USub(a, b) == LET a1 == IF ValOf(a) < ValOf(b) THEN AddWithCarry(a, ML)[1] ELSE a IN SubWithBorrow(a1, b)[1]
UMul2(a) == LET s == AddWithCarry(a, a) IN SubModWithCarry(s[1], s[2])
UNeg(a) == IF ValOf(a) = 0 THEN a ELSE SubWithBorrow(ML, a)[1]
UDiv2(a) ==
    LET odd == a[1] % 2 = 1
        s == IF odd THEN AddWithCarry(a, ML) ELSE << a, FALSE >>
        h == Limbs(ValOf(s[1]) \div 2)
    IN IF s[2] THEN SubModWithCarry(Limbs(ValOf(h) + RR \div 2), FALSE) ELSE h    \* set_bit(255) then conditional subtract
\* r is an 8-tuple of limbs
Upd(r, k, v) == [r EXCEPT ![k] = v]
MulNoSub(d, e) ==
    LET rowstep(st, j) ==      \* st = <<r, carry, i>>
            LET k == st[3] + j - 1                      \* 1-based index of limb i+j
                mc == Mac(st[1][k], d[st[3]], e[j], st[2])
            IN << Upd(st[1], k, mc[1]), mc[2], st[3] >>
        row(r, i) == LET st == FoldLeft(rowstep, << r, 0, i >>, <<1, 2, 3, 4>>) IN Upd(st[1], 4 + i, st[2])
        prod == FoldLeft(row, <<0, 0, 0, 0, 0, 0, 0, 0>>, <<1, 2, 3, 4>>)
        redstep(st, j) ==      \* st = <<r, carry, i, tmp>>
            LET k == st[3] + j - 1
                mc == Mac(st[1][k], st[4], ML[j], st[2])
            IN << Upd(st[1], k, mc[1]), mc[2], st[3], st[4] >>
        red(st2, i) ==         \* st2 = <<r, carry2>>
            LET r == st2[1]
                tmp == (r[i] * MInv) % LB
                c0 == (r[i] + tmp * ML[1]) \div LB                       \* mac_discard
                st == FoldLeft(redstep, << r, c0, i, tmp >>, <<2, 3, 4>>)
                ad == Adc(st[1][4 + i], st[2], st2[2])
            IN << Upd(st[1], 4 + i, ad[1]), ad[2] >>
        fin == FoldLeft(red, << prod, 0 >>, <<1, 2, 3, 4>>)
    IN << fin[2] # 0, SubSeq(fin[1], 5, 8) >>
UMul(a, b) == LET m == MulNoSub(a, b) IN SubModWithCarry(m[2], m[1])
USquare(a) ==
    LET \* off-diagonal products
        offstep(st, j) == LET k == st[3] + j - 1 mc == Mac(st[1][k], a[st[3]], a[j], st[2]) IN << Upd(st[1], k, mc[1]), mc[2], st[3] >>
        offrow(r, i) == LET st == FoldLeft(offstep, << r, 0, i >>, SubSeq(<<1, 2, 3, 4>>, i + 1, 4)) IN Upd(st[1], 4 + i, st[2])
        r1 == FoldLeft(offrow, <<0, 0, 0, 0, 0, 0, 0, 0>>, <<1, 2, 3>>)
        \* doubling: r.b1[3] = r.b1[2] >> (W-1); for i in 2..7: r[8-i] = (r[8-i] << 1) | (r[8-(i+1)] >> (W-1)); r.b0[1] <<= 1
        top == LB \div 2
        r2 == Upd(r1, 8, r1[7] \div top)
        shl(r, i) == Upd(r, 9 - i, ((r[9 - i] * 2) % LB) + (r[8 - i] \div top))     \* 0-based index 8-i is 1-based 9-i
        r3 == FoldLeft(shl, r2, <<2, 3, 4, 5, 6>>)
        r4 == Upd(r3, 2, (r3[2] * 2) % LB)
        \* diagonal
        diag(st, i) == LET mc == Mac(st[1][2 * i - 1], a[i], a[i], st[2])
                           ad == Adc(st[1][2 * i], 0, mc[2])
                       IN << Upd(Upd(st[1], 2 * i - 1, mc[1]), 2 * i, ad[1]), ad[2] >>
        r5 == FoldLeft(diag, << r4, 0 >>, <<1, 2, 3, 4>>)[1]
        redstep(st, j) == LET k == st[3] + j - 1 mc == Mac(st[1][k], st[4], ML[j], st[2]) IN << Upd(st[1], k, mc[1]), mc[2], st[3], st[4] >>
        red(st2, i) ==
            LET r == st2[1]
                tmp == (r[i] * MInv) % LB
                c0 == (r[i] + tmp * ML[1]) \div LB
                st == FoldLeft(redstep, << r, c0, i, tmp >>, <<2, 3, 4>>)
                ad == Adc(st[1][4 + i], st[2], st2[2])
            IN << Upd(st[1], 4 + i, ad[1]), ad[2] >>
        fin == FoldLeft(red, << r5, 0 >>, <<1, 2, 3, 4>>)
    IN SubModWithCarry(SubSeq(fin[1], 5, 8), fin[2] # 0)
\* ------------------------------------------------------------- u256.rs: add_carry, invert (BEA), div2 on values
\* add_carry: `while !self.sub_with_borrow(modulo) {}` - subtract M (wrapping mod R) until a borrow occurs
RECURSIVE AddCarryV(_)
AddCarryV(n) == IF n < M THEN (n + RR - M) % RR ELSE AddCarryV(n - M)
Div2V(n) == ValOf(UDiv2(Limbs(n)))
SubV(a, b) == ValOf(USub(Limbs(a), Limbs(b)))
\* invert(self, modulo, rsquared): binary extended Euclid on (u, v, b, c); returns the new value of self
RECURSIVE BeaLoop(_, _, _, _, _)
RECURSIVE StripU(_, _)
StripU(u, b) == IF u % 2 = 0 THEN StripU(u \div 2, Div2V(b)) ELSE << u, b >>
BeaLoop(u, v, b, c, fuel) ==
    IF fuel = 0 THEN << "nonterminating" >>
    ELSE IF u = 1 THEN << "ok", b >> ELSE IF v = 1 THEN << "ok", c >>
    ELSE LET su == StripU(u, b)  sv == StripU(v, c)
             u1 == su[1]  b1 == su[2]  v1 == sv[1]  c1 == sv[2]
         IN IF u1 >= v1 THEN BeaLoop(u1 - v1, v1, SubV(b1, c1), c1, fuel - 1)
            ELSE BeaLoop(u1, v1 - u1, b1, SubV(c1, b1), fuel - 1)
RSquared == (RR * RR) % M
UInvert(m) == BeaLoop(m, M, RSquared, 0, 16 * W + 8)
\* ------------------------------------------------------------- fp.rs: sum_of_products<T>  (a, b: sequences of T limb-vectors)
SumOfProducts(as, bs) ==
    LET T == Len(as)
        inner(t, idx) ==            \* t = <<t0..t5>>, idx = <<i, j>>
            LET d == as[idx[1]][idx[2]]  e == bs[idx[1]]
                m0 == Mac(t[1], d, e[1], 0)  m1 == Mac(t[2], d, e[2], m0[2])  m2 == Mac(t[3], d, e[3], m1[2])  m3 == Mac(t[4], d, e[4], m2[2])
                a4 == Adc(t[5], 0, m3[2])  a5 == Adc(t[6], 0, a4[2])
            IN << m0[1], m1[1], m2[1], m3[1], a4[1], a5[1] >>
        outer(u, j) ==              \* u = <<u0..u4>>
            LET t == FoldLeft(LAMBDA acc, i : inner(acc, << i, j >>), << u[1], u[2], u[3], u[4], u[5], 0 >>, [i \in 1..T |-> i])
                k == (t[1] * MInv) % LB
                c0 == Mac(t[1], k, ML[1], 0)  r1 == Mac(t[2], k, ML[2], c0[2])  r2 == Mac(t[3], k, ML[3], r1[2])  r3 == Mac(t[4], k, ML[4], r2[2])
                r4 == Adc(t[5], 0, r3[2])  r5 == Adc(t[6], 0, r4[2])
            IN << r1[1], r2[1], r3[1], r4[1], r5[1] >>
        u == FoldLeft(outer, << 0, 0, 0, 0, 0 >>, << 1, 2, 3, 4 >>)
        r0 == ValOf(<< u[1], u[2], u[3], u[4] >>)
        RECURSIVE rep(_, _)
        rep(r, n) == IF n = 0 THEN r ELSE rep(AddCarryV(r), n - 1)
        rc == rep(r0, u[5])
    IN << IF rc >= M THEN rc - M ELSE rc, u[5], r0 >>          \* <<result, u4, accumulator before the carry fold>>
\* ------------------------------------------------------------- u512.rs: divrem on an 8-limb dividend n (as a number < R^2)
RECURSIVE BitLen(_)
BitLen(n) == IF n = 0 THEN 0 ELSE 1 + BitLen(n \div 2)
DivRem(n) ==
    LET step(st, i) ==              \* st = <<q or -1 (None), r>>; i counts down from bits-1 to 0
            LET carry == st[2] >= RR \div 2                       \* mul2 carries out
                r1 == ((st[2] * 2) % RR) - (((st[2] * 2) % RR) % 2) + ((n \div (2 ^ i)) % 2)    \* set_bit(0, bit i of n)
            IN IF r1 >= M \/ carry
               THEN << IF st[1] >= 0 /\ i < 4 * W THEN st[1] + 2 ^ i ELSE -1, (r1 + RR - M) % RR >>
               ELSE << st[1], r1 >>
        bits == BitLen(n)
        fin == FoldLeft(step, << 0, 0 >>, [k \in 1..bits |-> bits - k])
    IN IF fin[1] >= 0 /\ fin[1] >= M THEN << -1, fin[2] >> ELSE fin
\* ------------------------------------------------------------- oracle
RInvModM == CHOOSE x \in 0..(M - 1) : (x * (RR % M)) % M = 1
Canon(l) == ValOf(l) < M
VARIABLES a, b
Init == a \in 0..(M - 1) /\ b \in 0..(M - 1)
Next == UNCHANGED <<a, b>>
AddOK == LET r == UAdd(Limbs(a), Limbs(b)) IN Canon(r) /\ ValOf(r) = (a + b) % M
SubOK == LET r == USub(Limbs(a), Limbs(b)) IN Canon(r) /\ ValOf(r) = (a + M - b) % M
Mul2OK == LET r == UMul2(Limbs(a)) IN Canon(r) /\ ValOf(r) = (2 * a) % M
NegOK == LET r == UNeg(Limbs(a)) IN Canon(r) /\ ValOf(r) = (M - a) % M
Div2OK == LET r == UDiv2(Limbs(a)) IN Canon(r) /\ (2 * ValOf(r)) % M = a
MulOK == LET r == UMul(Limbs(a), Limbs(b)) IN Canon(r) /\ ValOf(r) = (((a * b) % M) * RInvModM) % M
SqrOK == LET r == USquare(Limbs(a)) IN Canon(r) /\ r = UMul(Limbs(a), Limbs(a))
=============================================================================
