INIT Init
NEXT Next
INVARIANT ChainsOK
CHECK_DEADLOCK FALSE
