---------------------------- MODULE ImplMontDiv ----------------------------
(* Level B: U512::divrem for EVERY dividend below R^2, and invert for every non-zero residue. *)
EXTENDS ImplMont
VARIABLE n
InitD == n \in 0..(RR * RR - 1) /\ a = 0 /\ b = 0
NextD == UNCHANGED <<a, b, n>>
DivOK == LET d == DivRem(n) IN d[2] = n % M /\ d[2] < M /\ (IF n \div M < M THEN d[1] = n \div M ELSE d[1] = -1)
InvOK == n # 0 \/ \A m \in 1..(M - 1) : LET r == UInvert(m) IN r[1] = "ok" /\ r[2] < M /\ (r[2] * m) % M = RSquared
=============================================================================
