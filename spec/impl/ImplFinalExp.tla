---------------------------- MODULE ImplFinalExp ----------------------------
(* Level B, at the REAL SM9 parameters: the two hard-part addition chains of   *)
(* src/pairings.rs (final_exponentiation_last_chunk, final_exp_last_chunk)     *)
(* transcribed as EXPONENT arithmetic.  After the easy part y = x^((q^6-1)     *)
(* (q^2+1)) has order dividing Phi12(q) = q^4 - q^2 + 1, so every step of a    *)
(* chain is an operation on exponents modulo Phi12(q): multiplication = add,   *)
(* squaring = double, inverse = negate, frobenius_map(k) = multiply by q^k,    *)
(* pow(e) = multiply by e.  Each chain must produce exactly (q^4-q^2+1)/r, so  *)
(* that easy part * hard part = (q^12 - 1)/r as the standard prescribes.       *)
(* The constants are the polynomials in t checked against the code by the      *)
(* x.consts event of the trace specification (a2 = 6t^2+1, a3 = 6t+5, s = t).  *)
EXTENDS SM9
Phi == BAdd(BSub(BMul(BMul(Q, Q), BMul(Q, Q)), BMul(Q, Q)), <<1>>)
ASSUME BMod(Phi, R) = <<>>
Target == BDiv(Phi, R)
A2 == BAdd(BMul(N(6), T2), N(1))
A3 == BAdd(BMul(N(6), T), N(5))
Sx == T
EMul(a, b) == BAddMod(a, b, Phi)                  \* product of two powers of y
ESqr(a) == BAddMod(a, a, Phi)
EInv(a) == IF a = <<>> THEN a ELSE BSub(Phi, a)
EPow(a, e) == BMulMod(a, BMod(e, Phi), Phi)
EFrob(a, k) == BMulMod(a, BModPow(Q, N(k), Phi), Phi)
One == <<1>>                                      \* y itself
Chain1 ==                                          \* final_exponentiation_last_chunk
    LET a == EPow(One, A3)  b == EInv(a)  c == EFrob(b, 1)  d == EMul(c, b)
        e == EMul(d, b)  f == EFrob(One, 1)  g == EMul(One, f)  h == EPow(g, N(9))
        i == EMul(e, h)  j == ESqr(One)  k == ESqr(j)  l == EMul(k, i)
        m == ESqr(f)  n == EMul(d, m)  o == EFrob(One, 2)  p == EMul(o, n)
        qq == EPow(p, A2)  r == EMul(qq, l)  s == EFrob(One, 3)
    IN EMul(s, r)
Chain2 ==                                          \* final_exp_last_chunk
    LET t1a == EInv(EPow(One, Sx))  t0a == EFrob(One, 1)  x0a == EFrob(One, 2)  x1 == EFrob(One, 6)
        x3 == EFrob(t1a, 1)  x4a == t1a
        x0b == EFrob(EMul(x0a, EMul(One, t0a)), 1)
        x5 == EPow(t1a, Sx)  t1b == EInv(x5)
        x4 == EMul(x4a, EInv(EFrob(t1b, 1)))
        x2 == EFrob(t1b, 2)
        t0b == EInv(EPow(t1b, Sx))  t1c == EFrob(t0b, 1)
        t0c == ESqr(EMul(t0b, t1c))
        t0d == EMul(t0c, EMul(x4, x5))
        t1d == EMul(EMul(x3, x5), t0d)
        t0e == EMul(t0d, x2)
        t1e == ESqr(EMul(ESqr(t1d), t0e))
        t0f == ESqr(EMul(t1e, x1))
        t1f == EMul(t1e, x0b)
    IN EMul(t0f, t1f)
VARIABLE done
Init == done = FALSE
Next == ~done /\ done' = TRUE
ChainsOK == done => Chain1 = Target /\ Chain2 = Target /\ BModPow(Q, N(6), Phi) = BSub(Phi, <<1>>)
=============================================================================
