------------------------------ MODULE ImplConv ------------------------------
(* Level B: the conversion layer of lib.rs / fields/fp.rs / u512.rs / u256.rs transcribed on top of the limb routines of
   ImplMont, as a small state machine: the state is ONE input string (digit string, hash string or decimal string) and the
   actions are the public conversions applied to it.  Scaled down: a "byte" is a base-LB^2 digit, an element has EL = 2
   digits ("32 bytes"), a double-width value 2*EL = 4 digits ("64 bytes"); the length dispatch of Fr/Fq::from_slice
   (1..EL-1 pad + range-checked new | EL reduce by multiplying with R^2 | EL+1..2EL 512-bit remainder | else None),
   Fr::from_hash ((h mod (M-1)) + 1 through divrem by U256::from(-one)), from_str (table of 0..10 built by repeated
   addition of one, Horner), to_slice, and set_bit (edit the canonical value, re-enter through new_mul_factor) are the
   code's; the oracle is integer arithmetic.  EVERY string up to MaxLen digits is an initial state. *)
EXTENDS ImplMont, Sequences
CONSTANTS MaxLen,
          DROPCARRY                   \* FALSE = the code; TRUE = divrem without the `|| carry` disjunct (self-test of the model: must be rejected)
VARIABLE s, kind                       \* kind: "bytes" (digits 0..DB-1) or "dec" (0..9 decimal digits, 10 = any other character)

DB == LB * LB
EL == 2
NBits == 4 * W                         \* bits of an element ("256")

RECURSIVE BE(_)
BE(t) == IF t = <<>> THEN 0 ELSE BE(SubSeq(t, 1, Len(t) - 1)) * DB + t[Len(t)]
Pad(t, n) == [i \in 1..n |-> IF i <= n - Len(t) THEN 0 ELSE t[i - (n - Len(t))]]
ToBE(v, n) == [i \in 1..n |-> (v \div (DB ^ (n - i))) % DB]

\* ---- fields/fp.rs
One == Limbs(RR % M)                                                   \* the constant `one` (R mod M)
ToMont(n0) == UMul(Limbs(n0), Limbs(RSquared))                           \* a.mul(&rsquared, ..)
FromMont(x) == ValOf(UMul(x, Limbs(1)))                                \* U256::from(Fp): mul by U256::one()
None == << "none" >>
Some(x) == << "some", x >>
FpNew(n0) == IF n0 < M THEN Some(IF n0 # 0 THEN ToMont(n0) ELSE Limbs(0)) ELSE None
NewMulFactor(n0) == ToMont(n0)
U256FromSlice(t) == IF Len(t) = EL THEN BE(t) ELSE -1                  \* Err on a wrong length
FpFromSlice(t) == LET u == U256FromSlice(t) IN IF u < 0 THEN None ELSE FpNew(u)

\* ---- u512.rs divrem with an arbitrary divisor (ImplMont!DivRem is the instance with divisor M)
DivRemBy(n, m) ==
    LET step(st, i) ==
            LET carry == st[2] >= RR \div 2
                r1 == ((st[2] * 2) % RR) - (((st[2] * 2) % RR) % 2) + ((n \div (2 ^ i)) % 2)
            IN IF r1 >= m \/ (carry /\ ~DROPCARRY)
               THEN << IF st[1] >= 0 /\ i < NBits THEN st[1] + 2 ^ i ELSE -1, (r1 + RR - m) % RR >>
               ELSE << st[1], r1 >>
        bits == BitLen(n)
        fin == FoldLeft(step, << 0, 0 >>, [k \in 1..bits |-> bits - k])
    IN IF fin[1] >= 0 /\ fin[1] >= m THEN << -1, fin[2] >> ELSE fin
Interpret(t) == FpNew(DivRemBy(BE(t), M)[2])                           \* .unwrap(): None here would be a panic

\* ---- lib.rs
FromSlice(t) ==
    CASE Len(t) \in 1..(EL - 1)      -> FpFromSlice(Pad(t, EL))
      [] Len(t) = EL                 -> Some(NewMulFactor(BE(t)))
      [] Len(t) \in (EL + 1)..(2 * EL) -> Interpret(Pad(t, 2 * EL))
      [] OTHER                       -> None
FromHash(t) ==
    IF Len(t) > 2 * EL THEN None
    ELSE LET nm1 == FromMont(UNeg(One))                                 \* U256::from(-Fr::one())
             f == FpNew(DivRemBy(BE(Pad(t, 2 * EL)), nm1)[2])
         IN IF f = None THEN None ELSE Some(UAdd(f[2], One))
ToSlice(x) == ToBE(FromMont(x), EL)
SetBit(x, i, v) ==
    LET cv == FromMont(x)
        bit == (cv \div (2 ^ i)) % 2
        cv1 == IF i >= NBits THEN cv ELSE IF v THEN cv + (1 - bit) * 2 ^ i ELSE cv - bit * 2 ^ i
    IN NewMulFactor(cv1)
FromStr(t) ==
    LET ints == FoldLeft(LAMBDA acc, k : Append(acc, UAdd(acc[Len(acc)], One)), << Limbs(0) >>, [k \in 1..10 |-> k])   \* ints[d+1] = d
        step(st, c) == IF st = None \/ c > 9 THEN None ELSE Some(UAdd(UMul(st[2], ints[11]), ints[c + 1]))
    IN FoldLeft(step, Some(Limbs(0)), t)

\* ---- the machine: every string is an initial state; the conversions are evaluated in the invariants
Strs(S, n) == UNION { [1..k -> S] : k \in 0..n }
CInit == /\ a = 0 /\ b = 0
         /\ \/ kind = "bytes" /\ s \in Strs(0..(DB - 1), MaxLen)
            \/ kind = "dec" /\ s \in Strs(0..10, 3)
CNext == UNCHANGED << a, b, s, kind >>

IsVal(o, v) == o[1] = "some" /\ Canon(o[2]) /\ FromMont(o[2]) = v
SliceOK == kind = "bytes" =>
    IF Len(s) \in 1..(2 * EL) THEN IsVal(FromSlice(s), BE(s) % M) ELSE FromSlice(s) = None
HashOK == kind = "bytes" =>
    IF Len(s) <= 2 * EL THEN IsVal(FromHash(s), (BE(s) % (M - 1)) + 1) ELSE FromHash(s) = None
RECURSIVE Dec(_)
Dec(t) == IF t = <<>> THEN 0 ELSE Dec(SubSeq(t, 1, Len(t) - 1)) * 10 + t[Len(t)]
StrOK == kind = "dec" =>
    IF \E i \in 1..Len(s) : s[i] > 9 THEN FromStr(s) = None ELSE IsVal(FromStr(s), Dec(s) % M)
\* round trip and set_bit: for every canonical element (independent of s; evaluated in the state with the empty string)
RoundTripOK == (kind = "bytes" /\ s = <<>>) =>
    \A x \in 0..(M - 1) : LET mx == ToMont(x) IN
        /\ BE(ToSlice(mx)) = x /\ Len(ToSlice(mx)) = EL
        /\ FromSlice(ToSlice(mx)) = Some(mx)
        /\ FpFromSlice(ToSlice(mx)) = Some(mx)
SetBitOK == (kind = "bytes" /\ s = <<>>) =>
    \A x \in 0..(M - 1), i \in 0..(NBits + 2), v \in BOOLEAN :
        LET r == SetBit(ToMont(x), i, v)
            want == IF i >= NBits THEN x ELSE IF v THEN x + (1 - ((x \div (2 ^ i)) % 2)) * 2 ^ i ELSE x - ((x \div (2 ^ i)) % 2) * 2 ^ i
        IN Canon(r) /\ FromMont(r) = want % M
=============================================================================
