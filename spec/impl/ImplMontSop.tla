---------------------------- MODULE ImplMontSop ----------------------------
(* Level B: exhaustive check of the transcribed sum_of_products<2>, U512::divrem *)
(* and the binary extended Euclid inversion at small limb width.                 *)
(* Scale caveat: the accumulator has two spare limbs; at W = 1 that is a factor 4  *)
(* of headroom (2^128 in the code), so W = 1 models are faithful only for M <= 13  *)
(* (M = 15 overflows the model's accumulator, not the code's).                     *)
EXTENDS ImplMont
VARIABLES a0, a1, b0, b1
CONSTANT BSet
AllB == 0..(M - 1)
BoundaryB == {0, 1, 2, M - 1, M - 2, M - 3, (M - 1) \div 2, (M + 1) \div 2, M - 7, M - 13, 5, 77 % M}
InitS == a0 \in 0..(M - 1) /\ a1 \in 0..(M - 1) /\ b0 \in BSet /\ b1 \in BSet /\ a = 0 /\ b = 0
NextS == UNCHANGED <<a, b, a0, a1, b0, b1>>
SopOK == LET r == SumOfProducts(<< Limbs(a0), Limbs(a1) >>, << Limbs(b0), Limbs(b1) >>)
         IN r[1] < M /\ r[1] = (((a0 * b0 + a1 * b1) % M) * RInvModM) % M /\ (5 * M < 4 * RR => r[2] <= 1)      \* moduli shaped like SM9's (q / 2^256 = 0.712): at most one carry for T = 2
\* reachability of the carry classes (negated: TLC reports a witness when the class is reachable)
NoU4One == SumOfProducts(<< Limbs(a0), Limbs(a1) >>, << Limbs(b0), Limbs(b1) >>)[2] = 0
NoU4OneGeM == LET r == SumOfProducts(<< Limbs(a0), Limbs(a1) >>, << Limbs(b0), Limbs(b1) >>) IN ~(r[2] = 1 /\ r[3] >= M)
=============================================================================
