-------------------------- MODULE ImplFieldMachine --------------------------
(* Level B for the CANONICITY property (C07): the transcribed word-level       *)
(* routines of ImplMont (add, sub, neg, mul2, div2, mul, square, invert) run    *)
(* as a 2-register machine on limb vectors.  TLC computes the full set of       *)
(* register files reachable from {0, one} by any finite sequence of operations *)
(* (histories of unbounded length, as a fixpoint) and checks in every reachable *)
(* state that each register is fully reduced and equals the ghost value tracked *)
(* by arithmetic mod M - so no sequence of operations can manufacture a second  *)
(* representation of a field element at this scale.                             *)
EXTENDS ImplMont
VARIABLES x, y, gx, gy            \* registers (limb vectors in Montgomery form) and ghost values (canonical integers)
OneM == Limbs(RR % M)             \* Montgomery form of 1
FInit == x = Limbs(0) /\ y = OneM /\ gx = 0 /\ gy = 1 /\ a = 0 /\ b = 0
SetX(v, g) == x' = v /\ gx' = g % M /\ UNCHANGED << y, gy, a, b >>
SetY(v, g) == y' = v /\ gy' = g % M /\ UNCHANGED << x, gx, a, b >>
RECURSIVE GInvLoop(_, _)
GInvLoop(v, c) == IF (v * c) % M = 1 THEN c ELSE GInvLoop(v, c + 1)
GInv(v) == GInvLoop(v, 1)          \* ghost inverse by search (M is tiny)
Half(v) == IF v % 2 = 0 THEN v \div 2 ELSE (v + M) \div 2
FNext == \/ SetX(UAdd(x, y), gx + gy) \/ SetY(UAdd(y, x), gx + gy)
         \/ SetX(USub(x, y), gx + M - gy) \/ SetY(USub(y, x), gy + M - gx)
         \/ SetX(UNeg(x), M - gx) \/ SetY(UNeg(y), M - gy)
         \/ SetX(UMul2(x), 2 * gx) \/ SetY(UDiv2(y), Half(gy))
         \/ SetX(UMul(x, y), gx * gy) \/ SetY(UMul(y, y), gy * gy)
         \/ SetX(USquare(x), gx * gx)
         \/ (gy # 0 /\ LET r == UInvert(ValOf(y)) IN r[1] = "ok" /\ SetY(Limbs(r[2]), GInv(gy)))
         \/ SetX(y, gy) \/ SetY(OneM, 1) \/ SetX(Limbs(0), 0)
\* the canonical integer denoted by a Montgomery limb vector
Denote(l) == (ValOf(l) * RInvModM) % M
Canonical == ValOf(x) < M /\ ValOf(y) < M
Faithful == Denote(x) = gx /\ Denote(y) = gy
EqByValue == (x = y) = (gx = gy) /\ (ValOf(x) = 0) = (gx = 0) /\ (ValOf(y) = 0) = (gy = 0)
InvTerminates == gy # 0 => UInvert(ValOf(y))[1] = "ok"
=============================================================================
