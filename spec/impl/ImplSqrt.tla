------------------------------ MODULE ImplSqrt ------------------------------
(* Level B: transcription of Fq::sqrt (src/fields/fp.rs) and Fq2::sqrt            *)
(* (src/fields/fq2.rs, including the zero-imaginary-part branch added by the      *)
(* repair of finding F2) over a tiny prime P = 5 (mod 8), u^2 = -2, checked for   *)
(* EVERY element of F_P and F_P^2 against the set of squares.  FIXED = FALSE is   *)
(* the algorithm of the pinned commit (kept to show the model is not vacuous: TLC *)
(* then lists exactly the (P-1)/2 elements of F_P on which it was incomplete).    *)
EXTENDS Naturals, Sequences, TLC, FiniteSets
CONSTANT P, FIXED          \* FIXED = TRUE models the repaired y = 0 branch
ASSUME P % 8 = 5
None == <<>>
Some(x) == <<x>>
Add(a, b) == (a + b) % P
Sub(a, b) == (a + P - b) % P
Mul(a, b) == (a * b) % P
Neg(a) == (P - a) % P
RECURSIVE PowN(_, _)
PowN(a, n) == IF n = 0 THEN 1 ELSE IF n % 2 = 1 THEN Mul(a, PowN(a, n - 1)) ELSE LET h == PowN(a, n \div 2) IN Mul(h, h)
Inv(a) == PowN(a, P - 2)
Div2(a) == IF a % 2 = 0 THEN a \div 2 ELSE (a + P) \div 2
\* ---- Fq::sqrt
FqSqrt(x) ==
    IF x = 0 THEN Some(0)
    ELSE LET a1a == PowN(x, (P - 1) \div 4)
             res == IF a1a = 1 THEN Mul(PowN(x, (P - 5) \div 8), x)
                    ELSE IF Neg(a1a) = 1 THEN LET a == Add(x, x) b == PowN(Add(a, a), (P - 5) \div 8) IN Mul(a, b)
                    ELSE 0
         IN IF res = 0 THEN None ELSE LET r == Neg(res) IN Some(IF r < res THEN r ELSE res)
\* ---- Fq2 = Fq[u]/(u^2+2), element <<c0, c1>>
Mul2(x, y) == << Sub(Mul(x[1], y[1]), Mul(2, Mul(x[2], y[2]))), Add(Mul(x[1], y[2]), Mul(x[2], y[1])) >>
Sqr2(x) == Mul2(x, x)
Fq2Sqrt(x) ==
    IF x = <<0, 0>> THEN Some(x)
    ELSE IF FIXED /\ x[2] = 0      \* repaired: elements of Fq are handled first: sqrt(a) or u * sqrt(-a/2)
    THEN LET s1 == FqSqrt(x[1])
         IN IF s1 # None THEN Some(<<s1[1], 0>>)
            ELSE LET s2 == FqSqrt(Div2(Neg(x[1]))) IN IF s2 = None THEN None ELSE Some(<<0, s2[1]>>)
    ELSE LET a == x[1]  b == x[2]
             n == Add(Mul(a, a), Mul(2, Mul(b, b)))
             ws == FqSqrt(n)
         IN IF ws = None THEN None
            ELSE LET w == ws[1]
                     v1 == Div2(Add(a, w))
                     m == FqSqrt(v1)
                     ys == IF m # None THEN m ELSE FqSqrt(Div2(Sub(a, w)))
                 IN IF ys = None THEN None
                    ELSE LET y == ys[1]
                             z1s == IF y = 0
                                    THEN FqSqrt(Div2(w))
                                    ELSE Some(Mul(b, Inv(Add(y, y))))
                         IN IF z1s = None THEN None
                            ELSE LET cand == <<y, z1s[1]>> IN IF Sqr2(cand) = x THEN Some(cand) ELSE None
\* ---- textbook oracle
Fp == 0..(P - 1)
Fp2 == Fp \X Fp
Squares1 == { Mul(s, s) : s \in Fp }
Squares2 == { Sqr2(s) : s \in Fp2 }
VARIABLE x
Init == x \in Fp2
Next == UNCHANGED x
FqOK == \A a \in Fp : LET s == FqSqrt(a) IN IF a \in Squares1 THEN s # None /\ Mul(s[1], s[1]) = a ELSE s = None
Fq2Sound == LET s == Fq2Sqrt(x) IN s # None => Sqr2(s[1]) = x
Fq2Complete == x \in Squares2 => Fq2Sqrt(x) # None
Fq2NoFalse == x \notin Squares2 => Fq2Sqrt(x) = None
=============================================================================
